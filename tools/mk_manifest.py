#!/usr/bin/env python3
"""Regenerates MANIFEST.json from the table below (keeps it valid at all times)."""
import json, os, sys
ROOT=os.path.join(os.path.dirname(os.path.abspath(__file__)),'..')
IMPLEMENTED = sys.argv[1].split(',') if len(sys.argv)>1 else open(os.path.join(ROOT,'tools','implemented.txt')).read().split()
P={
"C01":("exploration","model","stateful property-based testing against an MVCC reference model (proptest) plus generated schedules over yield points (token scheduler)",
  "Two generated streams. (1) Multi-transaction histories with long-lived readers, cursors and arbitrary placements of rotate/flush/compaction run against the real store and an independent commit-log model; every read of every open reader is compared with the model at the reader's start horizon. (2) Schedules: committer, reader and flusher actors interleaved at the yield points inside Transaction::new, the commit pipeline, point reads, rotation, flush and compaction (incl. points between two lock acquisitions); every read of a reader must equal the state after the commits at or below its start sequence. Bounded exploration; failures shrink to a minimal step list / schedule.",
  "Trusted: reference model, interpreter, scheduler (one actor at a time, sequentially consistent, interleavings only at the instrumented points); bounded sizes (<=70 steps, <=6 readers, <=16 keys; <=3 committers x 3 transactions in schedules)."),
"C02":("fault_enumeration","crash","crash-point enumeration over recorded file-operation traces with generated workloads (PBT over workloads x crash points x crash models)",
  "Generated workloads are recorded at file-operation granularity; crash images (process crash and power loss) are reconstructed at operation boundaries, reopened, and every acknowledged commit must be present.",
  "Trusted: LD_PRELOAD recorder and image builder; power-loss model = per-file synced prefix, ordered namespace ops, torn appended tails."),
"C03":("fault_enumeration","crash","crash-point enumeration; recovered state must equal the model after some prefix of the commit order",
  "Same images as C02; the full recovered map must equal state(h) for an admissible prefix h.",
  "As C02."),
"C04":("exploration","sched","generated schedules over the commit pipeline's yield points judged from the pipeline's own event order, plus oracle-level stateful PBT of the conflict map",
  "(1) 2..5 committers with heavily overlapping key sets (read-write / write-only, refused oversized batches for the rollback path, forced GC of the conflict map) under generated schedules; in the order of the critical sections a transaction must be refused iff an earlier critical section stamped one of its keys above its start sequence, a pass with both transactions committed is a lost update, TransactionRetry only in the documented begin race; final state = effective commits in sequence order. (2) The real CommitOracle driven under the pipeline's caller contract (check / publish / rollback / reset_for_restore, forced GC, bursts of >1024 commits) against a model of all effective commits.",
  "Sequentially consistent schedules at the instrumented points; 64-bit fingerprint collisions ignored; restore with open transactions only at the oracle level."),
"C05":("exploration","sched","generated schedules (incl. priority schedules) with a probe transaction between any two decisions; prefix-of-commit-order oracle",
  "2..6 committers (private + shared keys, batches that rotate the memtable inside apply, duplicate writes), readers, a flusher; a probe transaction is begun between ANY two scheduling decisions and reads every key: it must equal the state after a prefix of the sequence-allocation order, prefixes never shrink, every commit acknowledged before the probe is inside it, the probe's start sequence separates visible from invisible commits.",
  "One actor at a time; the lock-free queue's internal races are not explored; up to 6 committers x 2 transactions."),
"C06":("exploration","model","metamorphic/differential PBT: one logical history under several physical plans and option sets, plus the reference model",
  "The same generated logical history is executed with generated physical placements/options and as an all-in-memory twin; all answers must equal the model and each other.",
  "Trusted: model + interpreter; bounded histories."),
"C07":("exploration","model","stateful PBT over layouts followed by reopen, probe commit, reopen",
  "Generated workloads drive the store into many level shapes; every reopen must succeed, reproduce the model state, and a probe commit after recovery must stay visible across a further reopen. A sub-stream lets memtables fill until apply rotates implicitly (where F03, now fixed, lived). A crash stream (process-crash and power-loss images, also with 4 / 8 KiB memtables so that recovery has to split a segment, second generation) demands that every image opens, takes a probe commit and opens again with the same contents.",
  "Trusted: model + interpreter; bounded histories; crash images as for C02/C03."),
"C08":("exploration","model","stateful PBT of transaction programs against a stack-of-maps write-set model",
  "Generated transaction programs (all modes, savepoints, rollbacks, operations after close, empty keys) are compared call by call with a write-set model laid over the snapshot model; rejected operations must fail with a documented error.",
  "Trusted: model; history over pending writes and get_at with pending writes are not judged."),
"C09":("exploration","model","stateful PBT of cursor programs over layered key sets against a sorted-vector cursor model",
  "Generated key layouts across write set / memtables / tables, generated bounds and cursor programs with reversals; after every call validity, key and value must match an index into the sorted live list.",
  "next/prev are only issued while the model cursor is on an entry (as the property states); seek targets lie inside the bounds."),
"C10":("exploration","model","stateful PBT of timestamped histories against a version-list model (unlimited and finite retention under a controlled clock, both index back-ends, back-dated writes), plus crash-point enumeration with the same model as judge",
  "(1) Generated timestamped histories with barriers and physical placements; get_at / history answers (tombstones, timestamp ranges, limits, both directions) compared with the version model; streams: index off / on, ties, back-dated writes, finite retention (a version inside the window or the newest write of its key is required, older ones may be missing, erased ones never appear). (2) Crash axis: the same kind of workload under the file-operation recorder; on every process-crash / power-loss image (every file-operation boundary, also inside a flush where the version index is updated in place before the manifest switches) the latest values must equal a prefix state and every history and get_at, right after recovery, must equal the version model after such a prefix. Open findings F10, F25, F44, F48 are classified and the search continues behind them.",
  "Trusted: versioned model, recorder and image builder (as C02); ties and limit semantics judged only as far as documented; images between the first page write of an index update and its fsync are judged but reported as F44."),
"C11":("exploration","model","stateful PBT with value-size classes around the threshold against a byte-exact model, generated schedules with separate flusher and compactor actors, and crash-point enumeration over value-log clean-up with the version index",
  "(1) Histories with value sizes around the separation threshold, tiny value-log files, overwrite patterns that make files obsolete, long-lived readers, reopen; byte equality of every read and existence of every reachable value-log file after every physical step. (2) Schedules: a flush (with its value-log clean-up) may complete while a compaction is parked between hiding its inputs and switching the manifest; every read must succeed and return a value some transaction wrote to that key, also after a reopen (nothing cached).",
  "A third stream is the crash axis of the value-log clean-up with the version index (every value separated, tiny files, finite retention, barriers, many compactions; judged like C10's crash stream: a listed version whose value cannot be read is an error). Crash images of value-log files without the index are C02/C03/C07's (vlog on in half of their workloads, images with a headerless value-log file are continued)."),
"C12":("fault_enumeration","format","exhaustive damage-offset enumeration over generated WAL segments (PBT) plus libFuzzer",
  "Generated record-length sequences and session splits; every truncation / byte / bit damage position; reader and repair must yield an exact prefix; appends after recovery must be read back.",
  "Small segments exhaustively, larger ones sampled near boundaries."),
"C13":("exploration","format","PBT of sorted tables against a sorted-vector reference",
  "Generated entry sets and table options; iteration, seek, get and range predicates compared with a reference.",
  "Through the guarded facade over crate-private table types."),
"C14":("exploration","model","stateful PBT: history -> checkpoint -> history -> restore -> history -> reopen against a model that keeps one copy of itself per checkpoint",
  "Restore sets the model to the checkpoint's copy (also a checkpoint NEWER than the present state after an earlier restore); everything after must behave as usual (new commits visible and durable, no data from the discarded timeline); checkpoint copies opened standalone must scan to the checkpointed state. Streams: plain, vlog on, cache on.",
  "Trusted: model; no commit in flight at checkpoint time (single-threaded interpreter)."),
"C15":("fault_enumeration","crash","fault-position enumeration (n-th write / fsync / rename / open on a file class fails) over generated workloads, then crash-image enumeration after the fault; plus schedules with refused batches",
  "A fault-free pass places the fault on an operation that exists; the faulted run (LD_PRELOAD shim) checks after every failed commit that none of its writes is visible; then process-crash and power-loss images are enumerated at the file-operation boundaries after the fault and must open to an acknowledged-commit prefix that contains no transaction whose commit() had returned an error. Non-I/O family: schedules in which batches larger than the memtable must be refused, leave nothing visible (probes) and not poison later commits; a boundary stream (the size limit at which a transaction is refused is found on the real store by bisection, the sizes around it are tried one by one: commit succeeds or leaves nothing, later commits work, a copy of the directory opens); and real writer threads against the store's own background tasks, where no commit may fail without a fault.",
  "One fault specification per run (transient or sticky); operations of the initial open are not faulted; a transaction inside commit() at the crash is optional as a whole."),
"C16":("fault_enumeration","format","bit/byte-flip enumeration over files of generated databases",
  "Every answer on a damaged copy equals the pristine answer or is an error; no panic/hang.",
  "Sub-process isolation."),
"C17":("exploration","sched","generated schedules (priority schedules, five actor-mix flavours) with structural no-progress / lock-cycle detection confirmed by re-run, plus a real-thread stress stream with state-based stuck detection",
  "Committers (more than the pipeline permits), flusher with a drain loop, closer, readers creating range cursors; tiny memtables and low stall thresholds. The run must complete: at every decision somebody is eligible or everything has finished; an actor blocked inside the store while lock holders parked between two lock acquisitions are released and block as well is a lock cycle; no actor panics; every commit() and close() returns. A stuck run is only reported if the same case is stuck again when re-run from scratch. An uncontrolled part runs real writer (and reader) threads against the store's own background tasks and reports persistent STATES: nobody moves although nothing stalls; the stall condition holds but the store's physical state has not changed for 10 s; a query of the store's state does not return (deadlock).",
  "Bounded: no reachable stuck state in the explored schedules; not a liveness proof; decision-budget exhaustion is inconclusive; the stress part's coverage (not its verdict) depends on timing."),
"C18":("exploration","format","stateful PBT of the B+tree against BTreeMap with page accounting",
  "Generated op sequences with skewed sizes; results and page accounting compared.",
  "Public BPlusTree API."),
"C19":("exploration","lock","generated open/close/drop/kill/restore sequences over several openers against a single-owner model, plus schedules with an opener racing close()",
  "An open succeeds iff nobody owns the directory (in-process and cross-process openers, races, kill -9, owner restoring a checkpoint, transactions that outlive their store handle, opens that fail after taking the lock); refused opens - also with other options than the owner's - leave every file unchanged (LOCK file excepted). Schedule stream: an opener actor tries to open while the closer is parked at the yield points inside close(); it may succeed only after close() has returned.",
  "In-process and cross-process; fork duplicates descriptors, hence one worker for the process stream."),
}
checks=[]; na=[]
for pid in sorted(P):
    level,engine,tech,text,note=P[pid]
    if pid in IMPLEMENTED:
        checks.append({"property_id":pid,"quick_cmd":f"./run.sh {pid} quick","thorough_cmd":f"./run.sh {pid} thorough","evidence_file":f"evidence/{pid}.json","replay_cmd_template":f"./run.sh {pid} --replay {{path}}","engine":engine,
          "level_claimed":{"category":level,"text":text,"design_ref":f"DESIGN.md section 5, {pid}"},"level_note":note,"technique":tech})
    else:
        na.append({"property_id":pid,"reason":"check not built yet in this session (planned, see DESIGN.md section 9); nothing is claimed for it until its check exists and is silent on the unchanged tree"})
m=json.load(open(os.path.join(ROOT,'MANIFEST.json')))
m['checks']=checks; m['not_applicable']=na
engines={}
for c in checks: engines.setdefault(c['engine'],[]).append(c['property_id'])
kinds={"model":("harness/src/exec.rs","proptest-generated (configuration, key pool, step list) cases interpreted against the real Tree and an independent commit-log reference model; answers compared immediately; failures shrunk by proptest plus a step-list minimiser; replay files re-executed without the generator"),
"format":("harness/src/engine_format.rs","proptest / libFuzzer drivers for WAL, SST, B+tree and corruption targets with reference oracles"),
"crash":("harness/src/engine_crash.rs","LD_PRELOAD file-operation recorder, crash-image builder, recovery oracles"),
"sched":("harness/src/engine_sched.rs","token-passing scheduler over guarded yield points"),
"lock":("harness/src/engine_lock.rs","single-owner model over in-process and cross-process openers")}
m['engines']=[{"name":k,"path":kinds[k][0],"serves_properties":v,"kind_free_text":kinds[k][1]} for k,v in engines.items()]
try:
    import subprocess
    hc=subprocess.run(['git','-C','/repo','log','--reverse','--format=%h %s'],capture_output=True,text=True).stdout.splitlines()
    hc=[l.split()[0] for l in hc if ' verif hooks' in ' '+l.split(' ',1)[1] or l.split(' ',1)[1].startswith('verif hooks')]
    if hc: m['hooks']['source_commits']=hc
except Exception as e:
    print('hooks commits not refreshed:',e)
json.dump(m,open(os.path.join(ROOT,'MANIFEST.json'),'w'),indent=1)
print("checks:",[c['property_id'] for c in checks]," n/a:",len(na))
