//! Known-findings file (committed, never written at run time). An `open` entry whose signature matches a failure
//! turns it into a KNOWN-FINDING line; `fixed` entries suppress nothing.

use crate::exec::Failure;
use serde::Deserialize;

#[derive(Clone, Debug, Deserialize)]
pub struct Finding {
    pub id: String,
    pub property: String,
    pub status: String,
    /// failure class must equal one of these (empty = any)
    #[serde(default)]
    pub classes: Vec<String>,
    /// failure class must start with one of these (empty = no constraint)
    #[serde(default)]
    pub class_prefixes: Vec<String>,
    /// every string must occur in the failure message
    #[serde(default)]
    pub msg_all: Vec<String>,
    /// at least one must occur in the failure message (empty = no constraint)
    #[serde(default)]
    pub msg_any: Vec<String>,
    /// every string must occur in the JSON rendering of the failure's aux data
    #[serde(default)]
    pub aux_all: Vec<String>,
    #[serde(default)]
    pub what: String,
    #[serde(default)]
    pub commit: Option<String>,
}

#[derive(Clone, Debug, Default)]
pub struct Findings {
    pub list: Vec<Finding>,
}

impl Findings {
    pub fn load() -> Findings {
        let p = crate::runner::verif_root().join("known_findings.json");
        let Ok(text) = std::fs::read_to_string(&p) else { return Findings::default() };
        #[derive(Deserialize)]
        struct File {
            findings: Vec<Finding>,
        }
        match serde_json::from_str::<File>(&text) {
            Ok(f) => Findings { list: f.findings },
            Err(e) => {
                eprintln!("known_findings.json unreadable: {e}");
                std::process::exit(2);
            }
        }
    }

    pub fn matches_open(&self, property: &str, f: &Failure) -> Option<String> {
        if std::env::var("VERIF_IGNORE_KNOWN").is_ok() {
            return None;
        }
        let aux = if self.list.iter().any(|k| !k.aux_all.is_empty()) { f.aux.to_string() } else { String::new() };
        for k in &self.list {
            if k.status != "open" || k.property != property {
                continue;
            }
            if !k.classes.is_empty() && !k.classes.iter().any(|c| *c == f.class) {
                continue;
            }
            if !k.class_prefixes.is_empty() && !k.class_prefixes.iter().any(|c| f.class.starts_with(c.as_str())) {
                continue;
            }
            if !k.msg_all.iter().all(|m| f.msg.contains(m.as_str())) {
                continue;
            }
            if !k.msg_any.is_empty() && !k.msg_any.iter().any(|m| f.msg.contains(m.as_str())) {
                continue;
            }
            if !k.aux_all.iter().all(|m| aux.contains(m.as_str())) {
                continue;
            }
            return Some(k.id.clone());
        }
        None
    }

    pub fn describe(&self, id: &str) -> String {
        self.list.iter().find(|k| k.id == id).map(|k| k.what.clone()).unwrap_or_default()
    }
}
