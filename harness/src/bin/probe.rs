//! Helper for C16: opens a (possibly damaged) database copy and answers a fixed set of queries.
//!   probe <db dir> <cfg.json> <keys.json>   -> one JSON line {"open": "ok"|"err: ..", "gets": [...], "scan": ...}
//! Runs under an address-space limit so that a damaged length field shows up as a failed allocation (abort),
//! not as an exhausted machine.
use skv_verif::case::Cfg;
use skv_verif::util::hash64;
use surrealkv::LSMIterator;

fn main() {
    unsafe {
        let lim = libc::rlimit { rlim_cur: 3 << 30, rlim_max: 3 << 30 };
        libc::setrlimit(libc::RLIMIT_AS, &lim);
    }
    let a: Vec<String> = std::env::args().collect();
    let dir = std::path::PathBuf::from(&a[1]);
    let cfg: Cfg = serde_json::from_str(&std::fs::read_to_string(&a[2]).unwrap()).unwrap();
    let keys: Vec<Vec<u8>> = serde_json::from_str(&std::fs::read_to_string(&a[3]).unwrap()).unwrap();
    let absolute = a.get(4).map(|s| s == "absolute").unwrap_or(false);
    surrealkv::verif::set_manual_background(true);
    let rt = tokio::runtime::Builder::new_current_thread().enable_all().build().unwrap();
    let out = rt.block_on(async move {
        let mut o = cfg.options(&dir, None, true);
        if absolute {
            o = o.with_wal_recovery_mode(surrealkv::WalRecoveryMode::AbsoluteConsistency);
        }
        let tree = match surrealkv::TreeBuilder::with_options(o).build() {
            Ok(t) => t,
            Err(e) => return serde_json::json!({"open": format!("err: {e:?}")}),
        };
        let mut gets = Vec::new();
        let mut scan = serde_json::Value::Null;
        match tree.begin_with_mode(surrealkv::Mode::ReadOnly) {
            Err(e) => return serde_json::json!({"open": "ok", "begin": format!("err: {e:?}")}),
            Ok(txn) => {
                for k in &keys {
                    gets.push(match txn.get(k.as_slice()) {
                        Ok(Some(v)) => serde_json::json!({"v": [v.len(), hash64(&v[..])]}),
                        Ok(None) => serde_json::json!({"none": true}),
                        Err(e) => serde_json::json!({"err": format!("{e:?}").chars().take(120).collect::<String>()}),
                    });
                }
                let r: Result<Vec<(Vec<u8>, usize, u64)>, String> = (|| {
                    let mut it = txn.range(&[0u8][..], &[0xffu8; 9][..]).map_err(|e| format!("{e:?}"))?;
                    let mut v = Vec::new();
                    let mut ok = it.seek_first().map_err(|e| format!("{e:?}"))?;
                    while ok {
                        let val = it.value().map_err(|e| format!("{e:?}"))?;
                        v.push((it.key().user_key().to_vec(), val.len(), hash64(&val[..])));
                        if v.len() > 100_000 {
                            return Err("scan does not terminate".into());
                        }
                        ok = it.next().map_err(|e| format!("{e:?}"))?;
                    }
                    Ok(v)
                })();
                scan = match r {
                    Ok(v) => serde_json::json!({"ok": v}),
                    Err(e) => serde_json::json!({"err": e.chars().take(160).collect::<String>()}),
                };
            }
        }
        let _ = tree.close().await;
        serde_json::json!({"open": "ok", "gets": gets, "scan": scan})
    });
    println!("{out}");
}
