#!/bin/bash
# tools/silence.sh [seeds...]  - every registered quick command, fresh process each, for several seeds; prints one line
# per run and a summary. Anything but exit 0 without a VIOLATION line on the unchanged tree needs triage.
cd "$(dirname "$0")/.." || exit 2
SEEDS="${@:-11 12 13}"
bad=0
for sd in $SEEDS; do
  for id in $(cat tools/implemented.txt); do
    s=$(date +%s); out=$(VERIF_SEED=$sd timeout 1800 ./run.sh $id quick 2>&1); rc=$?
    v=$(echo "$out" | grep -c "^VIOLATION")
    echo "seed=$sd $id exit=$rc violations=$v t=$(( $(date +%s)-s ))s"
    if [ $rc -ne 0 ] || [ $v -ne 0 ]; then bad=$((bad+1)); echo "$out" | grep -v "^proptest" | tail -4 | cut -c1-300; fi
  done
done
git checkout -q evidence/ 2>/dev/null
echo "silence: $bad run(s) need attention"
