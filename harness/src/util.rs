//! Small shared helpers: deterministic value bytes, hashing, key rendering, scratch dirs.

use serde::{Deserialize, Serialize};
use std::hash::{Hash, Hasher};
use std::path::{Path, PathBuf};

/// A value is described, not stored: `len` bytes whose content is a pure function of (`tag`, `len`).
#[derive(Clone, Copy, Debug, PartialEq, Eq, Hash, Serialize, Deserialize, PartialOrd, Ord)]
pub struct Val {
    pub len: u32,
    pub tag: u32,
}

impl Val {
    pub fn bytes(&self) -> Vec<u8> {
        val_bytes(self.tag, self.len as usize)
    }
}

pub fn val_bytes(tag: u32, len: usize) -> Vec<u8> {
    let mut out = Vec::with_capacity(len);
    let mut hdr = Vec::with_capacity(8);
    hdr.extend_from_slice(&tag.to_le_bytes());
    hdr.extend_from_slice(&(len as u32).to_le_bytes());
    let mut x = (tag as u64) << 32 | (len as u64) | 0x9E37_0000_0000_0001;
    for i in 0..len {
        if i < 8 {
            out.push(hdr[i]);
        } else {
            x ^= x << 13;
            x ^= x >> 7;
            x ^= x << 17;
            out.push((x >> 24) as u8);
        }
    }
    out
}

/// Describe a byte value for messages: recognises harness-made values.
pub fn describe_value(v: &[u8]) -> String {
    if v.len() >= 8 {
        let tag = u32::from_le_bytes([v[0], v[1], v[2], v[3]]);
        let len = u32::from_le_bytes([v[4], v[5], v[6], v[7]]);
        if len as usize == v.len() && val_bytes(tag, v.len()) == v {
            return format!("Val{{tag={tag},len={len}}}");
        }
    }
    if v.len() <= 24 {
        format!("bytes[{}]={}", v.len(), hex::encode(v))
    } else {
        format!("bytes[{}]={}..", v.len(), hex::encode(&v[..24]))
    }
}

pub fn hash64<T: Hash + ?Sized>(t: &T) -> u64 {
    let mut h = std::collections::hash_map::DefaultHasher::new();
    t.hash(&mut h);
    h.finish()
}

pub fn key_str(k: &[u8]) -> String {
    let mut s = String::new();
    for &b in k.iter().take(40) {
        if b.is_ascii_alphanumeric() || b == b'_' || b == b'-' || b == b':' {
            s.push(b as char);
        } else {
            s.push_str(&format!("\\x{b:02x}"));
        }
    }
    if k.len() > 40 {
        s.push_str(&format!("..[{}]", k.len()));
    }
    s
}

/// Root for scratch data: tmpfs if available.
pub fn scratch_root() -> PathBuf {
    if let Ok(p) = std::env::var("VERIF_SCRATCH") {
        return PathBuf::from(p);
    }
    let shm = Path::new("/dev/shm");
    let base = if shm.is_dir() { shm.to_path_buf() } else { std::env::temp_dir() };
    base.join("skv-verif").join(format!("{}", std::process::id()))
}

pub fn rm_rf(p: &Path) {
    let _ = std::fs::remove_dir_all(p);
}

pub fn copy_dir(src: &Path, dst: &Path) -> std::io::Result<()> {
    std::fs::create_dir_all(dst)?;
    for e in std::fs::read_dir(src)? {
        let e = e?;
        let ft = e.file_type()?;
        let to = dst.join(e.file_name());
        if ft.is_dir() {
            copy_dir(&e.path(), &to)?;
        } else if ft.is_file() {
            std::fs::copy(e.path(), &to)?;
        }
    }
    Ok(())
}

/// Sorted listing (relative path, size, content hash) of a directory tree, optionally skipping names.
pub fn tree_digest(root: &Path, skip: &[&str]) -> Vec<(String, u64, u64)> {
    fn walk(root: &Path, dir: &Path, skip: &[&str], out: &mut Vec<(String, u64, u64)>) {
        let rd = match std::fs::read_dir(dir) {
            Ok(r) => r,
            Err(_) => return,
        };
        for e in rd.flatten() {
            let p = e.path();
            let name = e.file_name().to_string_lossy().to_string();
            if skip.contains(&name.as_str()) {
                continue;
            }
            let rel = p.strip_prefix(root).unwrap().to_string_lossy().to_string();
            if p.is_dir() {
                out.push((format!("{rel}/"), 0, 0));
                walk(root, &p, skip, out);
            } else {
                let data = std::fs::read(&p).unwrap_or_default();
                out.push((rel, data.len() as u64, hash64(&data[..])));
            }
        }
    }
    let mut out = Vec::new();
    walk(root, root, skip, &mut out);
    out.sort();
    out
}

pub fn seed_from_env() -> u64 {
    std::env::var("VERIF_SEED").ok().and_then(|s| s.trim().parse::<i64>().ok()).map(|v| v as u64).unwrap_or(0)
}

pub fn jobs_from_env() -> usize {
    let n = std::thread::available_parallelism().map(|n| n.get()).unwrap_or(4);
    std::env::var("VERIF_JOBS").ok().and_then(|s| s.parse().ok()).unwrap_or(n.min(16)).max(1)
}

/// fork() duplicates every open descriptor of this process into the child until it execs. A store's LOCK file that a
/// worker thread closes inside that window stays locked (the child still holds a copy) and the worker's next open of
/// the same directory is refused. Spawning therefore takes this lock exclusively and every in-process
/// `TreeBuilder::build()` takes it shared, so a build never overlaps the fork itself. That is not enough on its own:
/// the kernel wakes a vfork parent (and closes std's exec-notification pipe) *before* it closes the child's remaining
/// close-on-exec descriptors, so for a few microseconds after `spawn()` returns the child may still hold a copy of
/// another worker's LOCK descriptor. `build_tree_retry` absorbs that window.
pub static SPAWN_LOCK: std::sync::RwLock<()> = std::sync::RwLock::new(());

pub fn build_tree(o: surrealkv::Options) -> surrealkv::Result<surrealkv::Tree> {
    let _g = SPAWN_LOCK.read().unwrap_or_else(|e| e.into_inner());
    surrealkv::TreeBuilder::with_options(o).build()
}

/// Like `build_tree`, but an "already locked by another process" refusal is retried for up to one second. Only for
/// call sites where the harness itself knows that no store is open on the directory (it closed it, or it just wrote
/// the directory): there the only possible holder is a sibling worker's child between fork and the end of exec (see
/// `SPAWN_LOCK`). A store that really keeps its lock after `close()` is still refused after the retries and reported.
pub fn build_tree_retry(o: surrealkv::Options) -> surrealkv::Result<surrealkv::Tree> {
    let mut tries = 0;
    loop {
        match build_tree(o.clone()) {
            Err(e) if tries < 500 && format!("{e:?}").contains("is already locked by another process") => {
                tries += 1;
                LOCK_RETRIES.fetch_add(1, std::sync::atomic::Ordering::Relaxed);
                std::thread::sleep(std::time::Duration::from_millis(2));
            }
            other => return other,
        }
    }
}

pub static LOCK_RETRIES: std::sync::atomic::AtomicU64 = std::sync::atomic::AtomicU64::new(0);

/// Wait for a child with a time limit while DRAINING its stdout and stderr (a child that prints more than a pipe holds -
/// 64 KiB - would otherwise block in write() for ever and look like a hang). Err(TimedOut) = killed after `limit`.
pub fn wait_child_output(mut c: std::process::Child, limit: std::time::Duration, what: &str) -> std::io::Result<std::process::Output> {
    use std::io::Read;
    let so = c.stdout.take();
    let se = c.stderr.take();
    let h1 = std::thread::spawn(move || {
        let mut b = Vec::new();
        if let Some(mut s) = so {
            let _ = s.read_to_end(&mut b);
        }
        b
    });
    let h2 = std::thread::spawn(move || {
        let mut b = Vec::new();
        if let Some(mut s) = se {
            let _ = s.read_to_end(&mut b);
        }
        b
    });
    let t0 = std::time::Instant::now();
    let status = loop {
        match c.try_wait() {
            Ok(Some(st)) => break Ok(st),
            Ok(None) if t0.elapsed() > limit => {
                let _ = c.kill();
                let _ = c.wait();
                break Err(std::io::Error::new(std::io::ErrorKind::TimedOut, format!("hung: {what} was still running after {} s and was killed", limit.as_secs())));
            }
            Ok(None) => std::thread::sleep(std::time::Duration::from_millis(if t0.elapsed().as_millis() < 200 { 2 } else { 20 })),
            Err(e) => {
                let _ = c.kill();
                let _ = c.wait();
                break Err(e);
            }
        }
    };
    let stdout = h1.join().unwrap_or_default();
    let stderr = h2.join().unwrap_or_default();
    status.map(|status| std::process::Output { status, stdout, stderr })
}

pub fn spawn_child(cmd: &mut std::process::Command) -> std::io::Result<std::process::Child> {
    let _g = SPAWN_LOCK.write().unwrap_or_else(|e| e.into_inner());
    cmd.spawn()
}
