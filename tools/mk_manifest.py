#!/usr/bin/env python3
"""Regenerates MANIFEST.json from the table below (keeps it valid at all times)."""
import json, os, sys
ROOT=os.path.join(os.path.dirname(os.path.abspath(__file__)),'..')
IMPLEMENTED = sys.argv[1].split(',') if len(sys.argv)>1 else open(os.path.join(ROOT,'tools','implemented.txt')).read().split()
P={
"C01":("exploration","model","stateful property-based testing against an MVCC reference model (proptest, generated histories x physical placements)",
  "Generated multi-transaction histories with long-lived readers, cursors and arbitrary placements of rotate/flush/compaction are executed against the real store and an independent commit-log model; every read of every open reader is compared with the model at the reader's start horizon. Exploration over bounded histories; a violation is shrunk to a minimal step list.",
  "Trusted: reference model and interpreter; single-threaded interpreter with manual background work (schedules are the scheduler engine's job); bounded sizes (<=70 steps, <=6 readers, <=16 keys)."),
"C02":("fault_enumeration","crash","crash-point enumeration over recorded file-operation traces with generated workloads (PBT over workloads x crash points x crash models)",
  "Generated workloads are recorded at file-operation granularity; crash images (process crash and power loss) are reconstructed at operation boundaries, reopened, and every acknowledged commit must be present.",
  "Trusted: LD_PRELOAD recorder and image builder; power-loss model = per-file synced prefix, ordered namespace ops, torn appended tails."),
"C03":("fault_enumeration","crash","crash-point enumeration; recovered state must equal the model after some prefix of the commit order",
  "Same images as C02; the full recovered map must equal state(h) for an admissible prefix h.",
  "As C02."),
"C04":("exploration","sched","generated schedules over yield points + PBT of the conflict oracle against a keep-everything model",
  "Oracle-level operation sequences and controlled interleavings of committers; conflict iff an earlier-published overlapping writer.",
  "Sequentially consistent interleavings at instrumented yield points only."),
"C05":("exploration","sched","generated schedules with probe readers after every decision",
  "Probe transactions between every two scheduling decisions must see whole transactions forming a growing prefix of the allocation order.",
  "Sequentially consistent interleavings at instrumented yield points only."),
"C06":("exploration","model","metamorphic/differential PBT: one logical history under several physical plans and option sets, plus the reference model",
  "The same generated logical history is executed with generated physical placements/options and as an all-in-memory twin; all answers must equal the model and each other.",
  "Trusted: model + interpreter; bounded histories."),
"C07":("exploration","model","stateful PBT over layouts followed by reopen, probe commit, reopen",
  "Generated workloads drive the store into many level shapes; every reopen must succeed, reproduce the model state, and a probe commit after recovery must stay visible across a further reopen. A sub-stream lets memtables fill until apply rotates implicitly (known finding F03 lives there and is classified).",
  "Trusted: model + interpreter; clean close only (crash images are C02/C03's job); bounded histories."),
"C08":("exploration","model","stateful PBT of transaction programs against a stack-of-maps write-set model",
  "Generated transaction programs (all modes, savepoints, rollbacks, operations after close, empty keys) are compared call by call with a write-set model laid over the snapshot model; rejected operations must fail with a documented error.",
  "Trusted: model; history over pending writes and get_at with pending writes are not judged."),
"C09":("exploration","model","stateful PBT of cursor programs over layered key sets against a sorted-vector cursor model",
  "Generated key layouts across write set / memtables / tables, generated bounds and cursor programs with reversals; after every call validity, key and value must match an index into the sorted live list.",
  "next/prev are only issued while the model cursor is on an entry (as the property states); seek targets lie inside the bounds."),
"C10":("exploration","model","stateful PBT of timestamped histories against a version-list model; metamorphic over physical steps and the two index back-ends",
  "Generated timestamped histories with barriers, retention and physical placements; get_at/history answers compared with the model and between back-ends.",
  "Trusted: versioned model; ties and limit semantics judged only as far as documented."),
"C11":("exploration","model","stateful PBT with value sizes around the separation threshold and tiny vlog files",
  "Every value read (point, scan, cursor, by old readers) must be byte-identical to the model across flush/compaction/rotation/clean-up/reopen; after every physical step each live table's oldest referenced vlog file must exist.",
  "Trusted: model + interpreter; crash images are covered by the crash engine."),
"C12":("fault_enumeration","format","exhaustive damage-offset enumeration over generated WAL segments (PBT) plus libFuzzer",
  "Generated record-length sequences and session splits; every truncation / byte / bit damage position; reader and repair must yield an exact prefix; appends after recovery must be read back.",
  "Small segments exhaustively, larger ones sampled near boundaries."),
"C13":("exploration","format","PBT of sorted tables against a sorted-vector reference",
  "Generated entry sets and table options; iteration, seek, get and range predicates compared with a reference.",
  "Through the guarded facade over crate-private table types."),
"C14":("exploration","model","stateful PBT: history -> checkpoint -> history -> restore -> history -> reopen against a model that rewinds its commit log",
  "Restore truncates the model to the checkpoint; everything after must behave as usual (new commits visible and durable, no data from the discarded timeline); checkpoint copies opened standalone must scan to the checkpointed state. Streams: plain, vlog on, cache on.",
  "Trusted: model; no commit in flight at checkpoint time (single-threaded interpreter)."),
"C15":("fault_enumeration","crash","fault-position enumeration (n-th write/fsync fails) over generated workloads",
  "Failed commits leave no trace; later acknowledged commits are recovered.",
  "Fault injection at the libc boundary."),
"C16":("fault_enumeration","format","bit/byte-flip enumeration over files of generated databases",
  "Every answer on a damaged copy equals the pristine answer or is an error; no panic/hang.",
  "Sub-process isolation."),
"C17":("exploration","sched","generated schedules with a structural no-progress detector",
  "Every commit and close returns under all explored interleavings.",
  "Bounded, sequentially consistent."),
"C18":("exploration","format","stateful PBT of the B+tree against BTreeMap with page accounting",
  "Generated op sequences with skewed sizes; results and page accounting compared.",
  "Public BPlusTree API."),
"C19":("exploration","lock","generated open/close/drop/kill sequences over several openers against a single-owner model",
  "An open succeeds iff nobody owns the directory; refused opens leave the directory unchanged.",
  "In-process and cross-process."),
}
checks=[]; na=[]
for pid in sorted(P):
    level,engine,tech,text,note=P[pid]
    if pid in IMPLEMENTED:
        checks.append({"property_id":pid,"quick_cmd":f"./run.sh {pid} quick","thorough_cmd":f"./run.sh {pid} thorough","evidence_file":f"evidence/{pid}.json","replay_cmd_template":f"./run.sh {pid} --replay {{path}}","engine":engine,
          "level_claimed":{"category":level,"text":text,"design_ref":f"DESIGN.md section 5, {pid}"},"level_note":note,"technique":tech})
    else:
        na.append({"property_id":pid,"reason":"check not built yet in this session (planned, see DESIGN.md section 9); nothing is claimed for it until its check exists and is silent on the unchanged tree"})
m=json.load(open(os.path.join(ROOT,'MANIFEST.json')))
m['checks']=checks; m['not_applicable']=na
engines={}
for c in checks: engines.setdefault(c['engine'],[]).append(c['property_id'])
kinds={"model":("harness/src/exec.rs","proptest-generated (configuration, key pool, step list) cases interpreted against the real Tree and an independent commit-log reference model; answers compared immediately; failures shrunk by proptest plus a step-list minimiser; replay files re-executed without the generator"),
"format":("harness/src/engine_format.rs","proptest / libFuzzer drivers for WAL, SST, B+tree and corruption targets with reference oracles"),
"crash":("harness/src/engine_crash.rs","LD_PRELOAD file-operation recorder, crash-image builder, recovery oracles"),
"sched":("harness/src/engine_sched.rs","token-passing scheduler over guarded yield points"),
"lock":("harness/src/engine_lock.rs","single-owner model over in-process and cross-process openers")}
m['engines']=[{"name":k,"path":kinds[k][0],"serves_properties":v,"kind_free_text":kinds[k][1]} for k,v in engines.items()]
json.dump(m,open(os.path.join(ROOT,'MANIFEST.json'),'w'),indent=1)
print("checks:",[c['property_id'] for c in checks]," n/a:",len(na))
