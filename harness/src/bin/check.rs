//! check <ID> <quick|thorough> | check <ID> --replay <file>
use skv_verif::findings::Findings;
use skv_verif::runner::{finish, replay_one, run_prop, run_replays, PropDef, Report};
use skv_verif::util::seed_from_env;
use skv_verif::props;
use std::path::PathBuf;
use std::time::Instant;

fn cases_for(tier: &str, quick: u64, thorough: u64) -> u64 {
    let base = if tier == "thorough" { thorough } else { quick };
    // VERIF_SCALE multiplies every stream's case count (e.g. 0.1 for a smoke run)
    match std::env::var("VERIF_SCALE").ok().and_then(|v| v.parse::<f64>().ok()) {
        Some(f) if f > 0.0 => ((base as f64 * f) as u64).max(1),
        _ => base,
    }
}

/// Thorough tier only: one libFuzzer campaign (tools/fuzz.sh). Returns false on an infrastructure problem.
fn fuzz_campaign(rep: &mut Report, tier: &str, target: &str, runs: u64, max_len: u32) -> bool {
    if tier != "thorough" || std::env::var("VERIF_NO_FUZZ").is_ok() {
        return true;
    }
    let root = skv_verif::runner::verif_root();
    let out = std::process::Command::new(root.join("tools").join("fuzz.sh")).arg(target).arg(runs.to_string()).arg(max_len.to_string()).output();
    let Ok(out) = out else {
        println!("fuzz campaign {target} could not be started (not a violation)");
        return false;
    };
    let text = String::from_utf8_lossy(&out.stdout).to_string();
    let mut summary = serde_json::json!({"target": target, "requested_runs": runs});
    for line in text.lines() {
        if let Some(rest) = line.strip_prefix("FUZZ-SUMMARY ") {
            for kv in rest.split_whitespace() {
                if let Some((k, v)) = kv.split_once('=') {
                    summary[k] = v.parse::<u64>().map(|n| serde_json::json!(n)).unwrap_or(serde_json::json!(v));
                }
            }
        }
        if let Some(p) = line.strip_prefix("FUZZ-VIOLATION ") {
            rep.violations.push((format!("libFuzzer target {target}: oracle failure"), std::path::PathBuf::from(p.trim())));
        }
        if let Some(p) = line.strip_prefix("FUZZ-CRASH ") {
            rep.violations.push((format!("libFuzzer target {target}: crash (sanitizer report or panic); input saved"), std::path::PathBuf::from(p.trim())));
        }
    }
    rep.extra.insert(format!("libfuzzer_{target}"), summary);
    match out.status.code() {
        Some(0) | Some(1) => true,
        _ => {
            println!("fuzz campaign {target} was inconclusive (build failure, time-out or memory limit; not a violation): {}", text.lines().last().unwrap_or(""));
            false
        }
    }
}

/// Systematic part of the schedule checks: for a few fixed small programs, EVERY schedule with at most one (quick) or
/// two (thorough) pre-emptions, over every base order of the actors.
fn enumerate_into(rep: &mut Report, tier: &str, id: &'static str, fl: skv_verif::engine_sched::Flavor, findings: &Findings) {
    use skv_verif::engine_sched::{enumerate_schedules, enumeration_programs, sched_prop};
    let def = sched_prop(id, fl);
    // C01's programs need two pre-emptions for the interesting schedules (committer parked after its apply, the flusher
    // runs to the end, the committer is pre-empted again at once and the reader runs): also in the quick tier (~40 s)
    let max_preempt = if tier == "thorough" || matches!(fl, skv_verif::engine_sched::Flavor::C01) { 2 } else { 1 };
    let mut summary = Vec::new();
    for (name, template, horizon) in enumeration_programs(fl) {
        let cases = enumerate_schedules(&template, max_preempt, horizon);
        let n = cases.len();
        let r = skv_verif::runner::run_list(&def, cases, findings);
        summary.push(serde_json::json!({"program": name, "schedules_enumerated": n, "schedules_run": r.evaluations, "max_preemptions": max_preempt, "decision_horizon": horizon, "complete": r.evaluations as usize == n}));
        rep.merge(r);
    }
    rep.extra.insert("systematic_enumeration".into(), serde_json::json!(summary));
}

fn run_model<C>(defs: Vec<(PropDef<C>, u64, u64)>, tier: &str, replay: Option<PathBuf>) -> i32
where
    C: Clone + std::fmt::Debug + serde::Serialize + serde::de::DeserializeOwned + Send + 'static,
{
    let findings = Findings::load();
    if let Some(p) = replay {
        return replay_one(&defs[0].0, &p, &findings);
    }
    let seed = seed_from_env();
    let t0 = Instant::now();
    let mut rep = Report::default();
    run_replays(&defs[0].0, &findings, &mut rep);
    for (i, (def, quick, thorough)) in defs.iter().enumerate() {
        let r = run_prop(def, cases_for(tier, *quick, *thorough), seed, i as u64, &findings);
        rep.merge(r);
    }
    let def = &defs[0].0;
    finish(def.id, def.level, tier, seed, &def.rule, &def.assumptions, &rep, t0.elapsed().as_secs_f64(), &findings)
}

fn main() {
    let args: Vec<String> = std::env::args().collect();
    if args.len() < 3 {
        eprintln!("usage: check <ID> <quick|thorough> | check <ID> --replay <file>");
        std::process::exit(2);
    }
    let id = args[1].to_uppercase();
    let (tier, replay) = if args[2] == "--replay" {
        ("quick".to_string(), Some(PathBuf::from(args.get(3).expect("replay path"))))
    } else {
        (std::env::var("VERIF_TIER").unwrap_or_else(|_| args[2].clone()), None)
    };
    let tier = if tier == "thorough" { "thorough" } else { "quick" };
    let code = match id.as_str() {
        "C12" => {
            let findings = Findings::load();
            let main = skv_verif::fmt_wal::c12(false);
            if let Some(p) = replay {
                let text = std::fs::read_to_string(&p).unwrap_or_default();
                if text.contains("\"txns\"") {
                    std::process::exit(replay_one(&skv_verif::fmt_wal::c12_store(), &p, &findings));
                }
                std::process::exit(replay_one(&main, &p, &findings));
            }
            let seed = seed_from_env();
            let t0 = Instant::now();
            let mut rep = Report::default();
            run_replays(&main, &findings, &mut rep);
            rep.merge(run_prop(&main, cases_for(tier, 600, 12000), seed, 0, &findings));
            rep.merge(run_prop(&skv_verif::fmt_wal::c12(true), cases_for(tier, 120, 2400), seed, 1, &findings));
            let store = skv_verif::fmt_wal::c12_store();
            run_replays(&store, &findings, &mut rep);
            rep.merge(run_prop(&store, cases_for(tier, 160, 3200), seed, 2, &findings));
            let fuzz_ok = fuzz_campaign(&mut rep, tier, "wal_damage", 1500, 1024);
            if !fuzz_ok && rep.violations.is_empty() {
                let _ = finish(main.id, main.level, tier, seed, &main.rule, &main.assumptions, &rep, t0.elapsed().as_secs_f64(), &findings);
                std::process::exit(2);
            }
            finish(main.id, main.level, tier, seed, &main.rule, &main.assumptions, &rep, t0.elapsed().as_secs_f64(), &findings)
        }
        "C13" => {
            let findings = Findings::load();
            let main = skv_verif::fmt_sst::c13(40);
            if let Some(p) = replay {
                std::process::exit(replay_one(&main, &p, &findings));
            }
            let seed = seed_from_env();
            let t0 = Instant::now();
            let mut rep = Report::default();
            run_replays(&main, &findings, &mut rep);
            rep.merge(run_prop(&main, cases_for(tier, 30000, 150000), seed, 0, &findings));
            rep.merge(run_prop(&skv_verif::fmt_sst::c13(200), cases_for(tier, 1200, 8000), seed, 1, &findings));
            let laws = run_prop(&skv_verif::fmt_sst::cmp_def(), cases_for(tier, 40000, 800000), seed, 2, &findings);
            rep.extra.insert("comparator_law_cases".into(), serde_json::json!(laws.evaluations));
            rep.extra.insert("comparator_law_cases_with_shortened_separator".into(), serde_json::json!(laws.nontrivial.len()));
            rep.violations.extend(laws.violations);
            let fuzz_ok = fuzz_campaign(&mut rep, tier, "sst_roundtrip", 40000, 256);
            if !fuzz_ok && rep.violations.is_empty() {
                let _ = finish(main.id, main.level, tier, seed, &main.rule, &main.assumptions, &rep, t0.elapsed().as_secs_f64(), &findings);
                std::process::exit(2);
            }
            finish(main.id, main.level, tier, seed, &main.rule, &main.assumptions, &rep, t0.elapsed().as_secs_f64(), &findings)
        }
        "C19" => {
            // one worker: a fork() for a helper process briefly duplicates every open descriptor of this process,
            // including LOCK files held by cases running on other worker threads, which would make their locks
            // outlive them for an instant
            std::env::set_var("VERIF_JOBS", "1");
            use skv_verif::engine_sched::{sched_prop, Flavor};
            let findings = Findings::load();
            let main = skv_verif::engine_lock::c19();
            let sched = sched_prop("C19", Flavor::C19);
            if let Some(p) = replay {
                let text = std::fs::read_to_string(&p).unwrap_or_default();
                if text.contains("\"actors\"") {
                    std::process::exit(replay_one(&sched, &p, &findings));
                }
                std::process::exit(replay_one(&main, &p, &findings));
            }
            let seed = seed_from_env();
            let t0 = Instant::now();
            let mut rep = Report::default();
            run_replays(&main, &findings, &mut rep);
            rep.merge(run_prop(&main, cases_for(tier, 1200, 24000), seed, 0, &findings));
            rep.merge(run_prop(&sched, cases_for(tier, 600, 12000), seed, 1, &findings));
            let rule = format!("{} || SECOND STREAM ({})", main.rule, sched.rule);
            finish(main.id, main.level, tier, seed, &rule, &main.assumptions, &rep, t0.elapsed().as_secs_f64(), &findings)
        }
        "C16" => run_model(vec![(skv_verif::engine_corrupt::c16(40), 160, 3200), (skv_verif::engine_corrupt::c16(600), 6, 240)], tier, replay),
        "C18" => {
            let findings = Findings::load();
            let main = skv_verif::fmt_bptree::c18(60, false);
            if let Some(p) = replay {
                std::process::exit(replay_one(&main, &p, &findings));
            }
            let seed = seed_from_env();
            let t0 = Instant::now();
            let mut rep = Report::default();
            run_replays(&main, &findings, &mut rep);
            rep.merge(run_prop(&main, cases_for(tier, 20000, 100000), seed, 0, &findings));
            rep.merge(run_prop(&skv_verif::fmt_bptree::c18(300, false), cases_for(tier, 1500, 8000), seed, 1, &findings));
            rep.merge(run_prop(&skv_verif::fmt_bptree::c18(60, true), cases_for(tier, 2000, 10000), seed, 2, &findings));
            let fuzz_ok = fuzz_campaign(&mut rep, tier, "bptree_ops", 40000, 256);
            if !fuzz_ok && rep.violations.is_empty() {
                let _ = finish(main.id, main.level, tier, seed, &main.rule, &main.assumptions, &rep, t0.elapsed().as_secs_f64(), &findings);
                std::process::exit(2);
            }
            finish(main.id, main.level, tier, seed, &main.rule, &main.assumptions, &rep, t0.elapsed().as_secs_f64(), &findings)
        }
        "C01" => {
            use skv_verif::engine_sched::{sched_prop, Flavor};
            let findings = Findings::load();
            let main = props::c01();
            let sched = sched_prop("C01", Flavor::C01);
            if let Some(p) = replay {
                let text = std::fs::read_to_string(&p).unwrap_or_default();
                if text.contains("\"actors\"") {
                    std::process::exit(replay_one(&sched, &p, &findings));
                }
                std::process::exit(replay_one(&main, &p, &findings));
            }
            let seed = seed_from_env();
            let t0 = Instant::now();
            let mut rep = Report::default();
            run_replays(&main, &findings, &mut rep);
            run_replays(&sched, &findings, &mut rep);
            rep.merge(run_prop(&main, cases_for(tier, 50000, 500000), seed, 0, &findings));
            rep.merge(run_prop(&sched, cases_for(tier, 10000, 100000), seed, 1, &findings));
            enumerate_into(&mut rep, tier, "C01", Flavor::C01, &findings);
            let rule = format!("{} || SECOND STREAM ({}) || SYSTEMATIC PART: coverage.systematic_enumeration", main.rule, sched.rule);
            finish(main.id, main.level, tier, seed, &rule, &main.assumptions, &rep, t0.elapsed().as_secs_f64(), &findings)
        }
        "C02" => {
            use skv_verif::engine_crash::{crash_prop, Judge};
            use skv_verif::engine_sched::{sched_prop, Flavor};
            let findings = Findings::load();
            let main = crash_prop("C02", Judge::Acked, 5, false);
            let sched = sched_prop("C02", Flavor::Crash);
            if let Some(p) = replay {
                let text = std::fs::read_to_string(&p).unwrap_or_default();
                if text.contains("\"actors\"") {
                    std::process::exit(replay_one(&sched, &p, &findings));
                }
                std::process::exit(replay_one(&main, &p, &findings));
            }
            let seed = seed_from_env();
            let t0 = Instant::now();
            let mut rep = Report::default();
            run_replays(&main, &findings, &mut rep);
            run_replays(&sched, &findings, &mut rep);
            rep.merge(run_prop(&main, cases_for(tier, 60, 1500), seed, 0, &findings));
            rep.merge(run_prop(&crash_prop("C02", Judge::Acked, 0, false), cases_for(tier, 8, 300), seed, 1, &findings));
            rep.merge(run_prop(&crash_prop("C02", Judge::Acked, 5, true), cases_for(tier, 24, 500), seed, 2, &findings));
            rep.merge(run_prop(&sched, cases_for(tier, 1500, 30000), seed, 3, &findings));
            let rule = format!("{} || SCHEDULE STREAM ({})", main.rule, sched.rule);
            finish(main.id, main.level, tier, seed, &rule, &main.assumptions, &rep, t0.elapsed().as_secs_f64(), &findings)
        }
        "C03" => {
            use skv_verif::engine_crash::{crash_prop, Judge};
            use skv_verif::engine_sched::{sched_prop, Flavor};
            let findings = Findings::load();
            let main = crash_prop("C03", Judge::Prefix, 5, false);
            let sched = sched_prop("C03", Flavor::Crash);
            if let Some(p) = replay {
                let text = std::fs::read_to_string(&p).unwrap_or_default();
                if text.contains("\"actors\"") {
                    std::process::exit(replay_one(&sched, &p, &findings));
                }
                std::process::exit(replay_one(&main, &p, &findings));
            }
            let seed = seed_from_env();
            let t0 = Instant::now();
            let mut rep = Report::default();
            run_replays(&main, &findings, &mut rep);
            run_replays(&sched, &findings, &mut rep);
            rep.merge(run_prop(&main, cases_for(tier, 60, 1500), seed, 0, &findings));
            rep.merge(run_prop(&crash_prop("C03", Judge::Prefix, 0, false), cases_for(tier, 8, 300), seed, 1, &findings));
            rep.merge(run_prop(&crash_prop("C03", Judge::Prefix, 5, true), cases_for(tier, 24, 500), seed, 2, &findings));
            rep.merge(run_prop(&sched, cases_for(tier, 1500, 30000), seed, 3, &findings));
            let rule = format!("{} || SCHEDULE STREAM ({})", main.rule, sched.rule);
            finish(main.id, main.level, tier, seed, &rule, &main.assumptions, &rep, t0.elapsed().as_secs_f64(), &findings)
        }
        "C15" => {
            use skv_verif::engine_sched::{sched_prop, Flavor};
            let findings = Findings::load();
            let main = skv_verif::engine_fault::c15(4, false);
            let sched = sched_prop("C15", Flavor::C15);
            if let Some(p) = replay {
                let text = std::fs::read_to_string(&p).unwrap_or_default();
                if text.contains("\"actors\"") {
                    std::process::exit(replay_one(&sched, &p, &findings));
                }
                std::process::exit(replay_one(&main, &p, &findings));
            }
            let seed = seed_from_env();
            let t0 = Instant::now();
            let mut rep = Report::default();
            run_replays(&main, &findings, &mut rep);
            run_replays(&sched, &findings, &mut rep);
            rep.merge(run_prop(&main, cases_for(tier, 300, 6000), seed, 0, &findings));
            rep.merge(run_prop(&skv_verif::engine_fault::c15(0, false), cases_for(tier, 20, 600), seed, 1, &findings));
            rep.merge(run_prop(&skv_verif::engine_fault::c15(9, true), cases_for(tier, 32, 800), seed, 2, &findings));
            rep.merge(run_prop(&sched, cases_for(tier, 2000, 40000), seed, 3, &findings));
            // no fault either: transactions right at the size limit of a memtable (refused before logging, or applied)
            let boundary = skv_verif::engine_boundary::c15_boundary();
            rep.merge(run_prop(&boundary, cases_for(tier, 600, 12000), seed, 4, &findings));
            {
                // no fault at all: real writer threads against the store's own background tasks; a commit must not
                // fail (other than by conflict / shutdown)
                let stress = skv_verif::engine_sched::stress17_prop("C15", if tier == "thorough" { 600 } else { 300 }, true);
                let jobs = std::env::var("VERIF_JOBS").ok();
                std::env::set_var("VERIF_JOBS", "1");
                rep.merge(run_prop(&stress, cases_for(tier, 10, 60), seed, 9, &findings));
                match jobs {
                    Some(j) => std::env::set_var("VERIF_JOBS", j),
                    None => std::env::remove_var("VERIF_JOBS"),
                }
            }
            let rule = format!("{} || SECOND STREAM: {} || THIRD STREAM (no fault injected): real writer threads, tiny memtables, automatic background mode; no commit may fail except by conflict or shutdown. || FOURTH STREAM: {}", main.rule, sched.rule, boundary.rule);
            finish(main.id, main.level, tier, seed, &rule, &main.assumptions, &rep, t0.elapsed().as_secs_f64(), &findings)
        }
        "C04" => {
            use skv_verif::engine_sched::{sched_prop, Flavor};
            let findings = Findings::load();
            let main = sched_prop("C04", Flavor::C04);
            let orc = skv_verif::engine_oracle::c04_oracle();
            if let Some(p) = replay {
                let text = std::fs::read_to_string(&p).unwrap_or_default();
                if text.contains("\"ops\"") && !text.contains("\"actors\"") {
                    std::process::exit(replay_one(&orc, &p, &findings));
                }
                std::process::exit(replay_one(&main, &p, &findings));
            }
            let seed = seed_from_env();
            let t0 = Instant::now();
            let mut rep = Report::default();
            run_replays(&main, &findings, &mut rep);
            rep.merge(run_prop(&main, cases_for(tier, 8000, 80000), seed, 0, &findings));
            rep.merge(run_prop(&orc, cases_for(tier, 100000, 1000000), seed, 1, &findings));
            enumerate_into(&mut rep, tier, "C04", Flavor::C04, &findings);
            let rule = format!("{} || SECOND STREAM ({})", main.rule, orc.rule);
            finish(main.id, main.level, tier, seed, &rule, &main.assumptions, &rep, t0.elapsed().as_secs_f64(), &findings)
        }
        "C05" => {
            use skv_verif::engine_sched::{sched_prop, Flavor};
            let findings = Findings::load();
            let main = sched_prop("C05", Flavor::C05);
            if let Some(p) = replay {
                std::process::exit(replay_one(&main, &p, &findings));
            }
            let seed = seed_from_env();
            let t0 = Instant::now();
            let mut rep = Report::default();
            run_replays(&main, &findings, &mut rep);
            rep.merge(run_prop(&main, cases_for(tier, 8000, 80000), seed, 0, &findings));
            enumerate_into(&mut rep, tier, "C05", Flavor::C05, &findings);
            {
                // real threads: one case at a time (each case uses up to 8 threads of its own)
                let stress = skv_verif::engine_sched::stress_prop("C05", if tier == "thorough" { 20000 } else { 4000 });
                let jobs = std::env::var("VERIF_JOBS").ok();
                std::env::set_var("VERIF_JOBS", "2");
                rep.merge(run_prop(&stress, cases_for(tier, 8, 60), seed, 7, &findings));
                match jobs {
                    Some(j) => std::env::set_var("VERIF_JOBS", j),
                    None => std::env::remove_var("VERIF_JOBS"),
                }
            }
            let rule = format!("{} || SYSTEMATIC PART: for fixed small programs (coverage.systematic_enumeration) every schedule with at most 1 (quick) / 2 (thorough) pre-emptions over every base order of the actors, same oracle. || STRESS PART: uncontrolled real-thread runs (counter pairs; see DESIGN 4.C).", main.rule);
            finish(main.id, main.level, tier, seed, &rule, &main.assumptions, &rep, t0.elapsed().as_secs_f64(), &findings)
        }
        "C17" if replay.is_none() => {
            use skv_verif::engine_sched::{sched_prop, Flavor};
            let findings = Findings::load();
            let defs = vec![(sched_prop("C17", Flavor::C17), 1500u64, 30000u64), (sched_prop("C17", Flavor::C17Stall), 1200, 24000), (sched_prop("C17", Flavor::C17Permit), 1200, 24000), (sched_prop("C17", Flavor::C17Fail), 800, 16000), (sched_prop("C17", Flavor::C17Locks), 1500, 30000)];
            let seed = seed_from_env();
            let t0 = Instant::now();
            let mut rep = Report::default();
            run_replays(&defs[0].0, &findings, &mut rep);
            for (i, (def, q, t)) in defs.iter().enumerate() {
                rep.merge(run_prop(def, cases_for(tier, *q, *t), seed, i as u64, &findings));
            }
            {
                // real threads and the store's own background tasks: one case at a time, nothing else in the process
                let stress = skv_verif::engine_sched::stress17_prop("C17", if tier == "thorough" { 600 } else { 150 }, false);
                let jobs = std::env::var("VERIF_JOBS").ok();
                std::env::set_var("VERIF_JOBS", "1");
                rep.merge(run_prop(&stress, cases_for(tier, 6, 40), seed, 9, &findings));
                match jobs {
                    Some(j) => std::env::set_var("VERIF_JOBS", j),
                    None => std::env::remove_var("VERIF_JOBS"),
                }
            }
            let def = &defs[0].0;
            let rule = format!("{} || STRESS PART: {}", def.rule, skv_verif::engine_sched::stress17_prop("C17", 1, false).rule);
            finish(def.id, def.level, tier, seed, &rule, &def.assumptions, &rep, t0.elapsed().as_secs_f64(), &findings)
        }
        "C17" => {
            use skv_verif::engine_sched::{sched_prop, Flavor};
            run_model(vec![(sched_prop("C17", Flavor::C17), 1500, 30000), (sched_prop("C17", Flavor::C17Stall), 1200, 24000), (sched_prop("C17", Flavor::C17Permit), 1200, 24000), (sched_prop("C17", Flavor::C17Fail), 800, 16000), (sched_prop("C17", Flavor::C17Locks), 1500, 30000)], tier, replay)
        }
        "C17S" => {
            std::env::set_var("VERIF_JOBS", "1");
            run_model(vec![(skv_verif::engine_sched::stress17_prop("C17", 300, true), 10, 40)], tier, replay)
        }
        "CRASHS" => {
            use skv_verif::engine_sched::{sched_prop, Flavor};
            run_model(vec![(sched_prop("C02", Flavor::Crash), 1500, 30000)], tier, replay)
        }
        "C11S" => {
            use skv_verif::engine_sched::{sched_prop, Flavor};
            run_model(vec![(sched_prop("C11", Flavor::C11), 2500, 50000)], tier, replay)
        }
        "C17L" => {
            // debug: only the lock-order flavour of C17
            use skv_verif::engine_sched::{sched_prop, Flavor};
            run_model(vec![(sched_prop("C17", Flavor::C17Locks), 1500, 30000)], tier, replay)
        }
        "C01E" => {
            // debug: only the systematic enumeration of C01 (thorough = at most 2 pre-emptions)
            use skv_verif::engine_sched::{sched_prop, Flavor};
            let findings = Findings::load();
            let def = sched_prop("C01", Flavor::C01);
            let t0 = Instant::now();
            let mut rep = Report::default();
            enumerate_into(&mut rep, tier, "C01", Flavor::C01, &findings);
            finish(def.id, def.level, tier, seed_from_env(), &def.rule, &def.assumptions, &rep, t0.elapsed().as_secs_f64(), &findings)
        }
        "C01S" => {
            use skv_verif::engine_sched::{sched_prop, Flavor};
            run_model(vec![(sched_prop("C01", Flavor::C01), 2000, 40000)], tier, replay)
        }
        "C06" => run_model(vec![(props::c06(), 16000, 150000)], tier, replay),
        "C07" => {
            use skv_verif::engine_crash::{crash_prop, Judge};
            let findings = Findings::load();
            let main = props::c07(false);
            let crash = crash_prop("C07", Judge::Reopen, 7, false);
            if let Some(p) = replay {
                let text = std::fs::read_to_string(&p).unwrap_or_default();
                if text.contains("\"work2\"") {
                    std::process::exit(replay_one(&crash, &p, &findings));
                }
                std::process::exit(replay_one(&main, &p, &findings));
            }
            let seed = seed_from_env();
            let t0 = Instant::now();
            let mut rep = Report::default();
            run_replays(&main, &findings, &mut rep);
            run_replays(&crash, &findings, &mut rep);
            if std::env::var("VERIF_ONLY_CRASH_STREAM").is_err() {
                rep.merge(run_prop(&main, cases_for(tier, 8000, 150000), seed, 0, &findings));
                rep.merge(run_prop(&props::c07(true), cases_for(tier, 800, 15000), seed, 1, &findings));
            }
            rep.merge(run_prop(&crash, cases_for(tier, 40, 1200), seed, 2, &findings));
            // small memtables, commits run into a full memtable: images whose last WAL segment recovery has to split
            rep.merge(run_prop(&crash_prop("C07", Judge::Reopen, 7, true), cases_for(tier, 16, 400), seed, 3, &findings));
            finish(main.id, main.level, tier, seed, &main.rule, &main.assumptions, &rep, t0.elapsed().as_secs_f64(), &findings)
        }
        "C08" => run_model(vec![(props::c08(), 120000, 1000000)], tier, replay),
        "C09" => run_model(vec![(props::c09(), 90000, 800000)], tier, replay),
        "C10" => {
            use skv_verif::engine_crash::crash_prop_c10;
            let findings = Findings::load();
            let streams = vec![(props::c10(false, true), 12000u64, 120000u64), (props::c10(true, false), 12000, 120000), (props::c10(true, true), 1500, 15000), (props::c10_backdated(), 8000, 80000), (props::c10_retention(false), 5000, 60000), (props::c10_retention(true), 5000, 60000)];
            let crash = crash_prop_c10(4, true);
            if let Some(p) = replay {
                let text = std::fs::read_to_string(&p).unwrap_or_default();
                if text.contains("\"work2\"") {
                    std::process::exit(replay_one(&crash, &p, &findings));
                }
                std::process::exit(replay_one(&streams[0].0, &p, &findings));
            }
            let seed = seed_from_env();
            let t0 = Instant::now();
            let mut rep = Report::default();
            run_replays(&streams[0].0, &findings, &mut rep);
            for (i, (def, q, t)) in streams.iter().enumerate() {
                rep.merge(run_prop(def, cases_for(tier, *q, *t), seed, i as u64, &findings));
            }
            // crash axis: images at every file-operation boundary, also inside a flush (index updated before the manifest)
            rep.merge(run_prop(&crash, cases_for(tier, 40, 1000), seed, 10, &findings));
            rep.merge(run_prop(&crash_prop_c10(4, false), cases_for(tier, 20, 500), seed, 11, &findings));
            let main = &streams[0].0;
            let rule = format!("{} || CRASH STREAM ({})", main.rule, crash.rule);
            finish(main.id, main.level, tier, seed, &rule, &main.assumptions, &rep, t0.elapsed().as_secs_f64(), &findings)
        }
        "C11" => {
            use skv_verif::engine_sched::{sched_prop, Flavor};
            let findings = Findings::load();
            let main = props::c11();
            let sched = sched_prop("C11", Flavor::C11);
            let crash = skv_verif::engine_crash::crash_prop_c11_index(4);
            if let Some(p) = replay {
                let text = std::fs::read_to_string(&p).unwrap_or_default();
                if text.contains("\"work2\"") {
                    std::process::exit(replay_one(&crash, &p, &findings));
                }
                if text.contains("\"actors\"") {
                    std::process::exit(replay_one(&sched, &p, &findings));
                }
                std::process::exit(replay_one(&main, &p, &findings));
            }
            let seed = seed_from_env();
            let t0 = Instant::now();
            let mut rep = Report::default();
            run_replays(&main, &findings, &mut rep);
            run_replays(&sched, &findings, &mut rep);
            rep.merge(run_prop(&main, cases_for(tier, 25000, 250000), seed, 0, &findings));
            rep.merge(run_prop(&sched, cases_for(tier, 6000, 60000), seed, 1, &findings));
            // crash axis of the value-log clean-up with the version index on
            rep.merge(run_prop(&crash, cases_for(tier, 30, 800), seed, 2, &findings));
            let rule = format!("{} || SECOND STREAM ({}) || CRASH STREAM ({})", main.rule, sched.rule, crash.rule);
            finish(main.id, main.level, tier, seed, &rule, &main.assumptions, &rep, t0.elapsed().as_secs_f64(), &findings)
        }
        "C14" => run_model(vec![(props::c14(Some(false), Some(0)), 20000, 200000), (props::c14(Some(true), Some(0)), 1500, 15000), (props::c14(Some(false), None), 1500, 15000)], tier, replay),
        _ => {
            eprintln!("unknown or unimplemented property {id}");
            2
        }
    };
    std::process::exit(code);
}
