// LD_PRELOAD recorder + fault injector for the crash engine.
//
//  IOTRACE_ROOT   only paths under this prefix are traced / faulted
//  IOTRACE_LOG    file the binary trace is appended to
//  IOTRACE_FAULT  <pathclass>:<op>:<nth>:<errno>[:short=<k>][:sticky]
//                 pathclass: wal|sst|manifest|vlog|any   op: write|fsync|rename|open
//
// Markers: write(-4242, buf, len) is recorded as a MARK record and swallowed.
//
// Record: u32 total_len | u8 op | i32 fd | i64 offset | i64 result | u16 path_len | path | u16 path2_len | path2 | u32 data_len | data
#define _GNU_SOURCE
#include <dlfcn.h>
#include <errno.h>
#include <fcntl.h>
#include <pthread.h>
#include <stdarg.h>
#include <stdint.h>
#include <stdio.h>
#include <stdlib.h>
#include <string.h>
#include <sys/stat.h>
#include <sys/types.h>
#include <sys/uio.h>
#include <unistd.h>

enum { OP_OPEN = 1, OP_CLOSE, OP_WRITE, OP_FSYNC, OP_FTRUNCATE, OP_RENAME, OP_UNLINK, OP_MKDIR, OP_RMDIR, OP_MARK, OP_FSYNCDIR, OP_FAULT, OP_LINK };

#define MAXFD 4096
static char *fd_path[MAXFD];
static int fd_append[MAXFD];
static int log_fd = -1;
static const char *root = NULL;
static size_t root_len = 0;
static pthread_mutex_t mu = PTHREAD_MUTEX_INITIALIZER;
static int inited = 0;

// fault spec
static int f_active = 0, f_sticky = 0, f_errno = 5, f_short = -1, f_fired = 0, f_pending_fail = 0;
static long f_nth = 0, f_count = 0;
static char f_class[16], f_op[16];

static int (*real_open)(const char *, int, ...);
static int (*real_open64)(const char *, int, ...);
static int (*real_openat)(int, const char *, int, ...);
static int (*real_close)(int);
static ssize_t (*real_write)(int, const void *, size_t);
static ssize_t (*real_pwrite)(int, const void *, size_t, off_t);
static ssize_t (*real_pwrite64)(int, const void *, size_t, off_t);
static ssize_t (*real_writev)(int, const struct iovec *, int);
static int (*real_fsync)(int);
static int (*real_fdatasync)(int);
static int (*real_ftruncate)(int, off_t);
static int (*real_ftruncate64)(int, off_t);
static int (*real_rename)(const char *, const char *);
static int (*real_renameat)(int, const char *, int, const char *);
static int (*real_unlink)(const char *);
static int (*real_unlinkat)(int, const char *, int);
static int (*real_mkdir)(const char *, mode_t);
static int (*real_rmdir)(const char *);
static int (*real_dup)(int);
static int (*real_dup2)(int, int);
static int (*real_dup3)(int, int, int);
static int (*real_fcntl)(int, int, ...);
static int (*real_fcntl64)(int, int, ...);
static int (*real_link)(const char *, const char *);
static int (*real_linkat)(int, const char *, int, const char *, int);

static void init(void) {
    if (inited) return;
    inited = 1;
    real_open = dlsym(RTLD_NEXT, "open");
    real_open64 = dlsym(RTLD_NEXT, "open64");
    real_openat = dlsym(RTLD_NEXT, "openat");
    real_close = dlsym(RTLD_NEXT, "close");
    real_write = dlsym(RTLD_NEXT, "write");
    real_pwrite = dlsym(RTLD_NEXT, "pwrite");
    real_pwrite64 = dlsym(RTLD_NEXT, "pwrite64");
    real_writev = dlsym(RTLD_NEXT, "writev");
    real_fsync = dlsym(RTLD_NEXT, "fsync");
    real_fdatasync = dlsym(RTLD_NEXT, "fdatasync");
    real_ftruncate = dlsym(RTLD_NEXT, "ftruncate");
    real_ftruncate64 = dlsym(RTLD_NEXT, "ftruncate64");
    real_rename = dlsym(RTLD_NEXT, "rename");
    real_renameat = dlsym(RTLD_NEXT, "renameat");
    real_unlink = dlsym(RTLD_NEXT, "unlink");
    real_unlinkat = dlsym(RTLD_NEXT, "unlinkat");
    real_mkdir = dlsym(RTLD_NEXT, "mkdir");
    real_rmdir = dlsym(RTLD_NEXT, "rmdir");
    real_dup = dlsym(RTLD_NEXT, "dup");
    real_dup2 = dlsym(RTLD_NEXT, "dup2");
    real_dup3 = dlsym(RTLD_NEXT, "dup3");
    real_fcntl = dlsym(RTLD_NEXT, "fcntl");
    real_fcntl64 = dlsym(RTLD_NEXT, "fcntl64");
    real_link = dlsym(RTLD_NEXT, "link");
    real_linkat = dlsym(RTLD_NEXT, "linkat");
    root = getenv("IOTRACE_ROOT");
    if (root) root_len = strlen(root);
    const char *lp = getenv("IOTRACE_LOG");
    if (lp && root) log_fd = real_open(lp, O_WRONLY | O_CREAT | O_APPEND | O_CLOEXEC, 0644);
    const char *fs = getenv("IOTRACE_FAULT");
    if (fs && *fs) {
        char buf[256];
        strncpy(buf, fs, sizeof buf - 1);
        buf[sizeof buf - 1] = 0;
        char *save = NULL;
        char *t = strtok_r(buf, ":", &save);
        int i = 0;
        while (t) {
            if (i == 0) strncpy(f_class, t, sizeof f_class - 1);
            else if (i == 1) strncpy(f_op, t, sizeof f_op - 1);
            else if (i == 2) f_nth = atol(t);
            else if (i == 3) f_errno = atoi(t);
            else if (!strncmp(t, "short=", 6)) f_short = atoi(t + 6);
            else if (!strcmp(t, "sticky")) f_sticky = 1;
            t = strtok_r(NULL, ":", &save);
            i++;
        }
        if (i >= 4) f_active = 1;
    }
}

static int under_root(const char *p) { return root && p && !strncmp(p, root, root_len); }

static void put(void *dst, size_t *off, const void *src, size_t n) { memcpy((char *)dst + *off, src, n); *off += n; }

static void rec(uint8_t op, int fd, int64_t offset, int64_t result, const char *p1, const char *p2, const void *data, size_t dlen) {
    if (log_fd < 0) return;
    uint16_t l1 = p1 ? (uint16_t)strlen(p1) : 0, l2 = p2 ? (uint16_t)strlen(p2) : 0;
    uint32_t dl = (uint32_t)dlen;
    size_t total = 4 + 1 + 4 + 8 + 8 + 2 + l1 + 2 + l2 + 4 + dlen;
    char *b = malloc(total);
    if (!b) return;
    size_t o = 0;
    uint32_t tl = (uint32_t)total;
    int32_t f = fd;
    put(b, &o, &tl, 4); put(b, &o, &op, 1); put(b, &o, &f, 4); put(b, &o, &offset, 8); put(b, &o, &result, 8);
    put(b, &o, &l1, 2); if (l1) put(b, &o, p1, l1);
    put(b, &o, &l2, 2); if (l2) put(b, &o, p2, l2);
    put(b, &o, &dl, 4); if (dlen) put(b, &o, data, dlen);
    size_t w = 0;
    while (w < total) { ssize_t n = real_write(log_fd, b + w, total - w); if (n <= 0) break; w += (size_t)n; }
    free(b);
}

static int class_match(const char *path) {
    if (!path) return 0;
    if (!strcmp(f_class, "any")) return 1;
    if (!strcmp(f_class, "wal")) return strstr(path, "/wal/") != NULL;
    if (!strcmp(f_class, "sst")) return strstr(path, "/sstables/") != NULL;
    if (!strcmp(f_class, "manifest")) return strstr(path, "/manifest/") != NULL;
    if (!strcmp(f_class, "vlog")) return strstr(path, "/vlog/") != NULL;
    return 0;
}

// returns 1 if this call must fail (errno set); *short_len >= 0 if it must be a short write instead
static int fault(const char *op, const char *path, int *short_len) {
    *short_len = -1;
    if (!f_active || strcmp(op, f_op) || !class_match(path)) return 0;
    if (f_pending_fail) { f_pending_fail = 0; if (!f_sticky) f_active = 0; rec(OP_FAULT, -1, 0, f_errno, path, op, NULL, 0); errno = f_errno; return 1; }
    if (f_fired && f_sticky) { rec(OP_FAULT, -1, 0, f_errno, path, op, NULL, 0); errno = f_errno; return 1; }
    f_count++;
    if (f_count != f_nth) return 0;
    f_fired = 1;
    if (f_short >= 0 && !strcmp(op, "write")) { *short_len = f_short; f_pending_fail = 1; return 0; }
    if (!f_sticky) f_active = 0;
    rec(OP_FAULT, -1, 0, f_errno, path, op, NULL, 0);
    errno = f_errno;
    return 1;
}

static void track_open(int fd, const char *path, int flags, int64_t size_after) {
    if (fd < 0 || fd >= MAXFD) return;
    free(fd_path[fd]);
    fd_path[fd] = strdup(path);
    fd_append[fd] = (flags & O_APPEND) != 0;
    rec(OP_OPEN, fd, (flags & O_TRUNC) ? 1 : 0, (flags & O_CREAT) ? 1 : 0, path, NULL, NULL, 0);
    (void)size_after;
}

static int do_open(int which, int dirfd, const char *path, int flags, mode_t mode) {
    init();
    int traced = under_root(path);
    if (traced && (flags & (O_WRONLY | O_RDWR | O_CREAT))) {
        pthread_mutex_lock(&mu);
        int sl;
        int ff = fault("open", path, &sl);
        pthread_mutex_unlock(&mu);
        if (ff) return -1;
    }
    int fd;
    if (which == 0) fd = real_open(path, flags, mode);
    else if (which == 1) fd = real_open64(path, flags, mode);
    else fd = real_openat(dirfd, path, flags, mode);
    if (fd >= 0 && traced) {
        struct stat st;
        int isdir = (fstat(fd, &st) == 0 && S_ISDIR(st.st_mode));
        pthread_mutex_lock(&mu);
        if (isdir) {
            if (fd < MAXFD) { free(fd_path[fd]); fd_path[fd] = strdup(path); fd_append[fd] = 2; }
        } else if (flags & (O_WRONLY | O_RDWR | O_CREAT | O_TRUNC)) {
            track_open(fd, path, flags, 0);
        } else if (fd < MAXFD) {
            // read-only descriptor: remembered (an fsync through it still syncs the file), not recorded as an OPEN
            free(fd_path[fd]); fd_path[fd] = strdup(path); fd_append[fd] = 3;
        }
        pthread_mutex_unlock(&mu);
    }
    return fd;
}

int open(const char *path, int flags, ...) { mode_t m = 0; if (flags & (O_CREAT | O_TMPFILE)) { va_list ap; va_start(ap, flags); m = va_arg(ap, mode_t); va_end(ap); } return do_open(0, 0, path, flags, m); }
int open64(const char *path, int flags, ...) { mode_t m = 0; if (flags & (O_CREAT | O_TMPFILE)) { va_list ap; va_start(ap, flags); m = va_arg(ap, mode_t); va_end(ap); } return do_open(1, 0, path, flags, m); }
int openat(int dirfd, const char *path, int flags, ...) {
    mode_t m = 0; if (flags & (O_CREAT | O_TMPFILE)) { va_list ap; va_start(ap, flags); m = va_arg(ap, mode_t); va_end(ap); }
    if (path && path[0] == '/') return do_open(2, dirfd, path, flags, m);
    init();
    // relative to a traced directory (std::fs::remove_dir_all walks this way): resolve
    char full[4096];
    const char *base = NULL;
    pthread_mutex_lock(&mu);
    if (dirfd >= 0 && dirfd < MAXFD && fd_path[dirfd]) base = fd_path[dirfd];
    if (base) snprintf(full, sizeof full, "%s/%s", base, path);
    pthread_mutex_unlock(&mu);
    int fd = real_openat(dirfd, path, flags, m);
    if (fd >= 0 && base && under_root(full)) {
        struct stat st;
        if (fstat(fd, &st) == 0 && S_ISDIR(st.st_mode) && fd < MAXFD) { pthread_mutex_lock(&mu); free(fd_path[fd]); fd_path[fd] = strdup(full); fd_append[fd] = 2; pthread_mutex_unlock(&mu); }
    }
    return fd;
}

int close(int fd) {
    init();
    pthread_mutex_lock(&mu);
    if (fd >= 0 && fd < MAXFD && fd_path[fd]) {
        if (fd_append[fd] != 2 && fd_append[fd] != 3) rec(OP_CLOSE, fd, 0, 0, fd_path[fd], NULL, NULL, 0);
        free(fd_path[fd]); fd_path[fd] = NULL;
    }
    pthread_mutex_unlock(&mu);
    return real_close(fd);
}

static ssize_t traced_write(int fd, const void *buf, size_t n, int64_t explicit_off) {
    // caller holds mu and knows fd is traced
    int sl;
    if (fault("write", fd_path[fd], &sl)) return -1;
    size_t want = n;
    if (sl >= 0 && (size_t)sl < n) want = (size_t)sl;
    ssize_t r;
    int64_t off;
    if (explicit_off >= 0) { r = real_pwrite64 ? real_pwrite64(fd, buf, want, explicit_off) : real_pwrite(fd, buf, want, explicit_off); off = explicit_off; }
    else {
        r = real_write(fd, buf, want);
        if (r >= 0) {
            if (fd_append[fd] == 1) { struct stat st; off = (fstat(fd, &st) == 0) ? (int64_t)st.st_size - r : 0; }
            else { off = (int64_t)lseek(fd, 0, SEEK_CUR) - r; }
        } else off = 0;
    }
    if (r > 0) rec(OP_WRITE, fd, off, r, fd_path[fd], NULL, buf, (size_t)r);
    return r;
}

ssize_t write(int fd, const void *buf, size_t n) {
    init();
    if (fd == -4242) { pthread_mutex_lock(&mu); rec(OP_MARK, -1, 0, 0, NULL, NULL, buf, n); pthread_mutex_unlock(&mu); return (ssize_t)n; }
    if (fd >= 0 && fd < MAXFD && fd_path[fd] && fd_append[fd] != 2) {
        pthread_mutex_lock(&mu);
        ssize_t r = (fd_path[fd]) ? traced_write(fd, buf, n, -1) : real_write(fd, buf, n);
        pthread_mutex_unlock(&mu);
        return r;
    }
    return real_write(fd, buf, n);
}

ssize_t pwrite(int fd, const void *buf, size_t n, off_t off) {
    init();
    if (fd >= 0 && fd < MAXFD && fd_path[fd] && fd_append[fd] != 2) { pthread_mutex_lock(&mu); ssize_t r = traced_write(fd, buf, n, (int64_t)off); pthread_mutex_unlock(&mu); return r; }
    return real_pwrite(fd, buf, n, off);
}
ssize_t pwrite64(int fd, const void *buf, size_t n, off_t off) {
    init();
    if (fd >= 0 && fd < MAXFD && fd_path[fd] && fd_append[fd] != 2) { pthread_mutex_lock(&mu); ssize_t r = traced_write(fd, buf, n, (int64_t)off); pthread_mutex_unlock(&mu); return r; }
    return real_pwrite64 ? real_pwrite64(fd, buf, n, off) : real_pwrite(fd, buf, n, off);
}
ssize_t writev(int fd, const struct iovec *iov, int cnt) {
    init();
    if (fd >= 0 && fd < MAXFD && fd_path[fd] && fd_append[fd] != 2) {
        size_t total = 0; for (int i = 0; i < cnt; i++) total += iov[i].iov_len;
        char *b = malloc(total ? total : 1); size_t o = 0;
        for (int i = 0; i < cnt; i++) { memcpy(b + o, iov[i].iov_base, iov[i].iov_len); o += iov[i].iov_len; }
        pthread_mutex_lock(&mu); ssize_t r = traced_write(fd, b, total, -1); pthread_mutex_unlock(&mu);
        free(b); return r;
    }
    return real_writev(fd, iov, cnt);
}

static int do_sync(int fd, int data_only) {
    init();
    if (fd >= 0 && fd < MAXFD && fd_path[fd]) {
        pthread_mutex_lock(&mu);
        int sl;
        if (fd_append[fd] != 2 && fault("fsync", fd_path[fd], &sl)) { pthread_mutex_unlock(&mu); return -1; }
        int r = data_only ? real_fdatasync(fd) : real_fsync(fd);
        if (r == 0) rec(fd_append[fd] == 2 ? OP_FSYNCDIR : OP_FSYNC, fd, 0, 0, fd_path[fd], NULL, NULL, 0);
        pthread_mutex_unlock(&mu);
        return r;
    }
    return data_only ? real_fdatasync(fd) : real_fsync(fd);
}
int fsync(int fd) { return do_sync(fd, 0); }
int fdatasync(int fd) { return do_sync(fd, 1); }

static int do_trunc(int fd, off_t len, int w64) {
    init();
    int r = (w64 && real_ftruncate64) ? real_ftruncate64(fd, len) : real_ftruncate(fd, len);
    if (r == 0 && fd >= 0 && fd < MAXFD && fd_path[fd]) { pthread_mutex_lock(&mu); if (fd_path[fd]) rec(OP_FTRUNCATE, fd, (int64_t)len, 0, fd_path[fd], NULL, NULL, 0); pthread_mutex_unlock(&mu); }
    return r;
}
int ftruncate(int fd, off_t len) { return do_trunc(fd, len, 0); }
int ftruncate64(int fd, off_t len) { return do_trunc(fd, len, 1); }

int rename(const char *a, const char *b) {
    init();
    if (under_root(a) || under_root(b)) {
        pthread_mutex_lock(&mu);
        int sl;
        if (fault("rename", b, &sl)) { pthread_mutex_unlock(&mu); return -1; }
        int r = real_rename(a, b);
        if (r == 0) {
            rec(OP_RENAME, -1, 0, 0, a, b, NULL, 0);
            for (int i = 0; i < MAXFD; i++) if (fd_path[i] && !strcmp(fd_path[i], a)) { free(fd_path[i]); fd_path[i] = strdup(b); }
        }
        pthread_mutex_unlock(&mu);
        return r;
    }
    return real_rename(a, b);
}
int renameat(int d1, const char *a, int d2, const char *b) {
    if (a && b && a[0] == '/' && b[0] == '/') return rename(a, b);
    init();
    return real_renameat(d1, a, d2, b);
}

int unlink(const char *p) {
    init();
    int r = real_unlink(p);
    if (r == 0 && under_root(p)) { pthread_mutex_lock(&mu); rec(OP_UNLINK, -1, 0, 0, p, NULL, NULL, 0); pthread_mutex_unlock(&mu); }
    return r;
}
int unlinkat(int dirfd, const char *p, int flags) {
    init();
    char full[4096];
    const char *use = NULL;
    if (p && p[0] == '/') use = p;
    else { pthread_mutex_lock(&mu); if (dirfd >= 0 && dirfd < MAXFD && fd_path[dirfd]) { snprintf(full, sizeof full, "%s/%s", fd_path[dirfd], p); use = full; } pthread_mutex_unlock(&mu); }
    int r = real_unlinkat(dirfd, p, flags);
    if (r == 0 && use && under_root(use)) { pthread_mutex_lock(&mu); rec((flags & AT_REMOVEDIR) ? OP_RMDIR : OP_UNLINK, -1, 0, 0, use, NULL, NULL, 0); pthread_mutex_unlock(&mu); }
    return r;
}
int mkdir(const char *p, mode_t m) {
    init();
    int r = real_mkdir(p, m);
    if (r == 0 && under_root(p)) { pthread_mutex_lock(&mu); rec(OP_MKDIR, -1, 0, 0, p, NULL, NULL, 0); pthread_mutex_unlock(&mu); }
    return r;
}
int rmdir(const char *p) {
    init();
    int r = real_rmdir(p);
    if (r == 0 && under_root(p)) { pthread_mutex_lock(&mu); rec(OP_RMDIR, -1, 0, 0, p, NULL, NULL, 0); pthread_mutex_unlock(&mu); }
    return r;
}
int link(const char *a, const char *b) {
    init();
    int r = real_link(a, b);
    if (r == 0 && under_root(b)) { pthread_mutex_lock(&mu); rec(OP_LINK, -1, 0, 0, a, b, NULL, 0); pthread_mutex_unlock(&mu); }
    return r;
}
int linkat(int d1, const char *a, int d2, const char *b, int flags) {
    init();
    int r = real_linkat(d1, a, d2, b, flags);
    if (r == 0 && a && b && a[0] == '/' && b[0] == '/' && under_root(b)) { pthread_mutex_lock(&mu); rec(OP_LINK, -1, 0, 0, a, b, NULL, 0); pthread_mutex_unlock(&mu); }
    return r;
}

static void copy_fd(int from, int to) {
    if (from >= 0 && from < MAXFD && to >= 0 && to < MAXFD && fd_path[from]) { free(fd_path[to]); fd_path[to] = strdup(fd_path[from]); fd_append[to] = fd_append[from]; }
}
int dup(int fd) { init(); int r = real_dup(fd); if (r >= 0) { pthread_mutex_lock(&mu); copy_fd(fd, r); pthread_mutex_unlock(&mu); } return r; }
int dup2(int a, int b) { init(); int r = real_dup2(a, b); if (r >= 0) { pthread_mutex_lock(&mu); copy_fd(a, r); pthread_mutex_unlock(&mu); } return r; }
int dup3(int a, int b, int f) { init(); int r = real_dup3(a, b, f); if (r >= 0) { pthread_mutex_lock(&mu); copy_fd(a, r); pthread_mutex_unlock(&mu); } return r; }
int fcntl(int fd, int cmd, ...) {
    init();
    va_list ap; va_start(ap, cmd); void *arg = va_arg(ap, void *); va_end(ap);
    int r = real_fcntl(fd, cmd, arg);
    if (r >= 0 && (cmd == F_DUPFD || cmd == F_DUPFD_CLOEXEC)) { pthread_mutex_lock(&mu); copy_fd(fd, r); pthread_mutex_unlock(&mu); }
    return r;
}
int fcntl64(int fd, int cmd, ...) {
    init();
    va_list ap; va_start(ap, cmd); void *arg = va_arg(ap, void *); va_end(ap);
    int r = real_fcntl64 ? real_fcntl64(fd, cmd, arg) : real_fcntl(fd, cmd, arg);
    if (r >= 0 && (cmd == F_DUPFD || cmd == F_DUPFD_CLOEXEC)) { pthread_mutex_lock(&mu); copy_fd(fd, r); pthread_mutex_unlock(&mu); }
    return r;
}
