//! Engine D / C12: commit-log segments under truncation and byte/bit damage, repair, append-after-recovery.

use crate::exec::{Failure, Stats};
use crate::runner::{CaseResult, PropDef};
use proptest::collection::vec;
use proptest::prelude::*;
use serde::{Deserialize, Serialize};
use serde_json::json;
use std::path::{Path, PathBuf};
use std::sync::Arc;
use surrealkv::verif::{wal_read_segment, wal_repair_segment, VerifWal, VerifWalEnd};
use surrealkv::LSMIterator;

const BLOCK: usize = 32 * 1024;
const HEADER: usize = 7;

#[derive(Clone, Debug, PartialEq, Eq, Serialize, Deserialize)]
pub enum RecLen {
    Small(u16),
    /// fill the current block so that exactly `leave` bytes (0..8) remain before its end
    FillBlock { leave: u8 },
    /// whole blocks plus a small delta
    Blocks { n: u8, delta: i8 },
}

#[derive(Clone, Debug, PartialEq, Eq, Serialize, Deserialize)]
pub struct WalCase {
    pub lz4: bool,
    /// sessions of records; the segment is closed and reopened between sessions
    pub sessions: Vec<Vec<(RecLen, u32)>>,
    /// records appended after recovery
    pub after: Vec<(RecLen, u32)>,
    /// selects which sampled damage positions are used for large files
    pub salt: u16,
}

type R<T> = Result<T, Failure>;

/// Like `wal_read_segment`; a segment that repair removed (no valid record) reads as empty.
fn read_seg(path: &Path, site: u32) -> R<(Vec<(Vec<u8>, u64)>, VerifWalEnd)> {
    if !path.exists() {
        return Ok((Vec::new(), VerifWalEnd::Eof));
    }
    wal_read_segment(path).map_err(|e| Failure { class: "harness-io".into(), step: usize::MAX, msg: format!("site {site}: {e}"), aux: json!({}) })
}

fn fail<T>(class: &str, msg: String) -> R<T> {
    Err(Failure { class: class.into(), step: usize::MAX, msg, aux: json!({}) })
}

fn seg_path(dir: &Path) -> PathBuf {
    dir.join(format!("{:020}.wal", 0))
}

fn rec_len(r: &RecLen, file_off: usize) -> usize {
    match r {
        RecLen::Small(n) => *n as usize % 400,
        RecLen::FillBlock { leave } => {
            let rem = BLOCK - (file_off % BLOCK);
            let want = rem as isize - HEADER as isize - (*leave as isize % 9);
            if want >= 0 {
                want as usize
            } else {
                (rem + BLOCK - HEADER - (*leave as usize % 9)) % BLOCK
            }
        }
        RecLen::Blocks { n, delta } => ((*n as usize % 3 + 1) * BLOCK).saturating_add_signed(*delta as isize * 3),
    }
}

/// Writes the sessions; returns the appended payloads.
fn write_segment(dir: &Path, case: &WalCase) -> R<Vec<Vec<u8>>> {
    let mut all = Vec::new();
    for sess in &case.sessions {
        let mut w = VerifWal::open(dir, case.lz4).map_err(|e| Failure { class: "wal-open-error".into(), step: usize::MAX, msg: format!("{e:?}"), aux: json!({}) })?;
        for (r, tag) in sess {
            let off = std::fs::metadata(seg_path(dir)).map(|m| m.len() as usize).unwrap_or(0);
            let payload = crate::util::val_bytes(*tag, rec_len(r, off));
            if let Err(e) = w.append(&payload) {
                if payload.is_empty() {
                    // an empty record is rejected with an error: a clean rejection, nothing to read back
                    continue;
                }
                return fail("wal-append-error", format!("append of {} bytes failed: {e:?}", payload.len()));
            }
            // make the size visible for the next length computation
            let _ = w.flush();
            all.push(payload);
        }
        if let Err(e) = w.close() {
            return fail("wal-close-error", format!("{e:?}"));
        }
    }
    Ok(all)
}

#[derive(Clone, Copy, Debug)]
enum Dmg {
    Trunc(usize),
    Flip(usize, u8),
    Byte(usize, u8),
}

fn damages(size: usize, ends: &[u64], salt: u16) -> Vec<Dmg> {
    let mut offs: Vec<usize> = Vec::new();
    if size <= 1600 {
        offs.extend(0..size);
    } else {
        let mut marks: Vec<usize> = vec![0, size];
        marks.extend(ends.iter().map(|e| *e as usize));
        let mut b = BLOCK;
        while b < size {
            marks.push(b);
            b += BLOCK;
        }
        for m in marks {
            for d in 0..=12usize {
                if m + d < size {
                    offs.push(m + d);
                }
                if m >= d && m - d < size {
                    offs.push(m - d);
                }
            }
        }
        let stride = 997 + (salt as usize % 211);
        let mut o = salt as usize % stride;
        while o < size {
            offs.push(o);
            o += stride;
        }
    }
    offs.sort();
    offs.dedup();
    let mut out = Vec::new();
    for &o in &offs {
        out.push(Dmg::Trunc(o));
        out.push(Dmg::Flip(o, ((o as u16).wrapping_mul(7).wrapping_add(salt) % 8) as u8));
        if o % 3 == 0 {
            out.push(Dmg::Byte(o, (o as u8).wrapping_mul(31).wrapping_add(salt as u8)));
        }
    }
    out
}

fn apply(d: Dmg, data: &[u8]) -> (Vec<u8>, usize) {
    match d {
        Dmg::Trunc(o) => (data[..o].to_vec(), o),
        Dmg::Flip(o, bit) => {
            let mut v = data.to_vec();
            v[o] ^= 1 << bit;
            (v, o)
        }
        Dmg::Byte(o, b) => {
            let mut v = data.to_vec();
            v[o] = if v[o] == b { b.wrapping_add(1) } else { b };
            (v, o)
        }
    }
}

fn check_prefix(what: &str, got: &[(Vec<u8>, u64)], appended: &[Vec<u8>], must_have: usize) -> R<usize> {
    if got.len() > appended.len() {
        return fail("wal-extra-record", format!("{what}: reader returned {} records, only {} were appended", got.len(), appended.len()));
    }
    for (i, (g, _)) in got.iter().enumerate() {
        if *g != appended[i] {
            return fail("wal-garbage-record", format!("{what}: record #{i} read back with {} bytes differs from the {} bytes appended", g.len(), appended[i].len()));
        }
    }
    if got.len() < must_have {
        return fail("wal-lost-valid-record", format!("{what}: only {} records read back, {} lie wholly before the damage", got.len(), must_have));
    }
    Ok(got.len())
}

pub fn run_wal_case(case: &WalCase, dir: &Path) -> CaseResult {
    let mut stats = Stats::default();
    let failure = run_inner(case, dir, &mut stats).err();
    let nontrivial = failure.is_none() && stats.has("damage_inside") && stats.has("append_after_recovery");
    CaseResult { stats, failure, nontrivial }
}

fn run_inner(case: &WalCase, dir: &Path, stats: &mut Stats) -> R<()> {
    let pristine = dir.join("pristine");
    let _ = std::fs::create_dir_all(&pristine);
    let appended = write_segment(&pristine, case)?;
    let seg = seg_path(&pristine);
    if appended.is_empty() || !seg.exists() {
        return Ok(());
    }
    let data = std::fs::read(&seg).unwrap_or_default();
    // undamaged round trip
    let (got, end) = wal_read_segment(&seg).map_err(|e| Failure { class: "harness-io".into(), step: usize::MAX, msg: format!("site 1: {}", e), aux: json!({}) })?;
    if end != VerifWalEnd::Eof {
        return fail("wal-roundtrip", format!("undamaged segment ({} bytes, {} records) did not end with end-of-log: {end:?}", data.len(), appended.len()));
    }
    if got.len() != appended.len() {
        return fail("wal-roundtrip", format!("undamaged segment: {} records appended, {} read back", appended.len(), got.len()));
    }
    check_prefix("undamaged", &got, &appended, appended.len())?;
    let ends: Vec<u64> = got.iter().map(|g| g.1).collect();
    if case.sessions.len() > 1 {
        stats.inc("multi_session");
    }
    if data.len() > BLOCK {
        stats.inc("multi_block");
    }
    // records appended after recovery
    let mut after_payloads = Vec::new();
    for (i, (r, tag)) in case.after.iter().enumerate() {
        after_payloads.push(crate::util::val_bytes(tag.wrapping_add(0x5000_0000 + i as u32), rec_len(r, 100).min(70_000)));
    }
    let work = dir.join("work");
    let mut n_damages = 0u64;
    for d in damages(data.len(), &ends, case.salt) {
        n_damages += 1;
        let (bytes, at) = apply(d, &data);
        crate::util::rm_rf(&work);
        let _ = std::fs::create_dir_all(&work);
        let wseg = seg_path(&work);
        std::fs::write(&wseg, &bytes).map_err(|e| Failure { class: "harness-io".into(), step: usize::MAX, msg: format!("site 2: {}", e), aux: json!({}) })?;
        let must = ends.iter().filter(|e| **e as usize <= at).count();
        let what = format!("{d:?} of a {}-byte segment with {} records (lz4={})", data.len(), appended.len(), case.lz4);
        if must < appended.len() && at < data.len().saturating_sub(1) && ends.last().map(|e| at < *e as usize).unwrap_or(false) {
            stats.inc("damage_inside");
        }
        // 1. read
        let (got, end) = wal_read_segment(&wseg).map_err(|e| Failure { class: "harness-io".into(), step: usize::MAX, msg: format!("site 3: {}", e), aux: json!({}) })?;
        if let VerifWalEnd::Other(m) = &end {
            return fail("wal-read-other-error", format!("{what}: reading ended with an error that is neither end-of-log nor a corruption report: {m}"));
        }
        let j = check_prefix(&what, &got, &appended, must)?;
        // 2. repair when the reader reported corruption (what the store does), then read again
        let mut j2 = j;
        if matches!(end, VerifWalEnd::Corruption(_)) {
            stats.inc("corruption_reported");
            if let Err(e) = wal_repair_segment(&work, 0) {
                return fail("wal-repair-error", format!("{what}: repair failed: {e:?}"));
            }
            let (got2, end2) = read_seg(&wseg, 4)?;
            if end2 != VerifWalEnd::Eof {
                return fail("wal-repair-not-clean", format!("{what}: after repair the segment still does not read to a clean end: {end2:?}"));
            }
            j2 = check_prefix(&format!("{what}, after repair"), &got2, &appended, must)?;
            if j2 < j {
                return fail("wal-repair-lost-record", format!("{what}: {j} records readable before repair, {j2} after"));
            }
            let debris: Vec<String> = std::fs::read_dir(&work).map(|rd| rd.flatten().map(|e| e.file_name().to_string_lossy().to_string()).filter(|n| n.contains("repair")).collect()).unwrap_or_default();
            if !debris.is_empty() {
                return fail("wal-repair-debris", format!("{what}: repair left {debris:?} behind"));
            }
            stats.inc("repairs");
        }
        // 3. append after opening / repairing, then read again
        // (the store never enables WAL compression and repair rewrites segments uncompressed, so appending is only
        // exercised on uncompressed logs)
        if !after_payloads.is_empty() && !case.lz4 {
            let mut w = match VerifWal::open(&work, false) {
                Ok(w) => w,
                Err(e) => return fail("wal-open-after-damage", format!("{what}: opening the directory for appending failed: {e:?}")),
            };
            if w.active_log_number() != 0 {
                // the manager chose a fresh segment: appended records live there
                stats.inc("append_new_segment");
            }
            for p in &after_payloads {
                if p.is_empty() {
                    continue;
                }
                if let Err(e) = w.append(p) {
                    return fail("wal-append-error", format!("{what}: append after recovery failed: {e:?}"));
                }
            }
            if let Err(e) = w.close() {
                return fail("wal-close-error", format!("{what}: {e:?}"));
            }
            let (got3, end3) = read_seg(&wseg, 5)?;
            let mut expect: Vec<Vec<u8>> = appended[..j2].to_vec();
            expect.extend(after_payloads.iter().filter(|p| !p.is_empty()).cloned());
            let same = got3.len() == expect.len() && got3.iter().zip(expect.iter()).all(|(g, e)| g.0 == *e);
            if !same || end3 != VerifWalEnd::Eof {
                let new_back = got3.len().saturating_sub(j2.min(got3.len()));
                return fail(
                    "wal-append-after-recovery-lost",
                    format!("{what}: {j2} records were readable, {} appended afterwards; next read returned {} records (of which {} new) and ended with {end3:?}", after_payloads.len(), got3.len(), new_back),
                );
            }
            stats.inc("append_after_recovery");
        }
    }
    stats.add("n_damages", n_damages);
    crate::util::rm_rf(&work);
    Ok(())
}

pub fn wal_strategy(big: bool) -> BoxedStrategy<WalCase> {
    let rl = if big {
        prop_oneof![
            6 => (0u16..400).prop_map(RecLen::Small),
            3 => (0u8..9).prop_map(|leave| RecLen::FillBlock { leave }),
            1 => (0u8..3, -3i8..4).prop_map(|(n, delta)| RecLen::Blocks { n, delta }),
        ]
        .boxed()
    } else {
        (0u16..400).prop_map(RecLen::Small).boxed()
    };
    let rec = (rl, any::<u32>());
    (any::<bool>(), vec(vec(rec.clone(), 0..6), 1..4), vec(rec, 0..3), any::<u16>())
        .prop_map(|(lz4, sessions, after, salt)| WalCase { lz4, sessions, after, salt })
        .boxed()
}

pub fn minimize_wal(case: &WalCase, f: &Failure, still_fails: &dyn Fn(&WalCase) -> Option<Failure>) -> WalCase {
    let mut best = case.clone();
    let class = f.class.clone();
    let same = |c: &WalCase| still_fails(c).filter(|g| g.class == class);
    for _ in 0..3 {
        let mut changed = false;
        for s in (0..best.sessions.len()).rev() {
            if best.sessions.len() > 1 {
                let mut c = best.clone();
                c.sessions.remove(s);
                if same(&c).is_some() {
                    best = c;
                    changed = true;
                    continue;
                }
            }
            let mut i = best.sessions[s].len();
            while i > 0 {
                i -= 1;
                let mut c = best.clone();
                c.sessions[s].remove(i);
                if same(&c).is_some() {
                    best = c;
                    changed = true;
                }
            }
        }
        while best.after.len() > 1 {
            let mut c = best.clone();
            c.after.pop();
            if same(&c).is_some() {
                best = c;
                changed = true;
            } else {
                break;
            }
        }
        if !changed {
            break;
        }
    }
    best
}

pub fn c12(big: bool) -> PropDef<WalCase> {
    PropDef {
        id: "C12",
        engine: "format",
        level: "fault_enumeration",
        rule: "case = compression (none / lz4) + 1..3 write sessions (segment closed and reopened in between) of records with lengths 0..400 bytes, lengths that leave exactly 0..8 bytes before a 32 KiB block end, and 1..3 blocks +-9 bytes + records appended after recovery. For every case the damage set is ENUMERATED: every truncation offset, one bit flip per offset and a byte substitution at every third offset for segments <= 1600 bytes (exhaustive over offsets); for larger segments every offset within +-12 of each record end, block boundary, file start/end plus a strided sample. Per damage: the reader must return an exact prefix of the appended records containing every record that lies wholly before the damage and end with end-of-log or a corruption report; when corruption is reported the segment is repaired (as the store does) and must then read to a clean end with no fewer records and no debris; records appended through a freshly opened Wal must be read back after the recovered prefix. Non-trivial: a damage strictly inside the record area together with a successful append-after-recovery read-back. evaluations counts cases; coverage.damages_evaluated counts (case, damage) pairs.".into(),
        assumptions: vec![
            "through the guarded facade src/verif.rs (VerifWal, wal_read_segment, wal_repair_segment) which only delegates to wal::manager::Wal, wal::reader::Reader and wal::recovery::repair_corrupted_wal_segment".into(),
            "a record lies wholly before a damage at byte x iff the reader's end offset for it on the pristine file is <= x".into(),
            "absolute-consistency mode and store-level recovery of damaged segments are exercised by C16".into(),
        ],
        strategy: Arc::new(move || wal_strategy(big)),
        run: Arc::new(|c: &WalCase, d: &Path| run_wal_case(c, d)),
        render: Arc::new(|c: &WalCase| json!({"lz4": c.lz4, "sessions": c.sessions.iter().map(|s| s.iter().map(|r| format!("{:?}", r.0)).collect::<Vec<_>>()).collect::<Vec<_>>(), "after": c.after.iter().map(|r| format!("{:?}", r.0)).collect::<Vec<_>>()})),
        minimize: Some(Arc::new(minimize_wal)),
        shrink_iters: 40,
    }
}

// =====================================================================================================================
// Store-level stage: a real store's WAL segment is damaged, the store is reopened (repair or refusal, by recovery
// mode), new commits are made and the store is reopened again.
// =====================================================================================================================

#[derive(Clone, Debug, PartialEq, Eq, Serialize, Deserialize)]
pub struct WalStoreCase {
    /// per transaction: (number of keys 1..4, value length class, tag)
    pub txns: Vec<(u8, u8, u32)>,
    pub probes: u8,
    pub absolute: bool,
    pub salt: u16,
}

fn store_opts(path: &Path, absolute: bool) -> surrealkv::Options {
    let mut o = surrealkv::Options::new().with_path(path.to_path_buf()).with_flush_on_close(false).with_max_memtable_size(1 << 20);
    if absolute {
        o = o.with_wal_recovery_mode(surrealkv::WalRecoveryMode::AbsoluteConsistency);
    }
    o.memtable_stall_threshold = 1_000_000;
    o.l0_stall_threshold = 1_000_000;
    o
}

fn txn_writes(i: usize, t: &(u8, u8, u32)) -> Vec<(Vec<u8>, Vec<u8>)> {
    let n = (t.0 % 4) as usize + 1;
    (0..n)
        .map(|j| {
            let key = format!("k{:02}", (i * 3 + j * 5) % 17).into_bytes();
            let len = match t.1 % 5 {
                0 => 0,
                1 => 3,
                2 => 40,
                3 => 300,
                _ => 33_000, // spans a WAL block
            };
            (key, crate::util::val_bytes(t.2.wrapping_add(j as u32), len))
        })
        .collect()
}

async fn scan_all(tree: &surrealkv::Tree) -> Result<std::collections::BTreeMap<Vec<u8>, Vec<u8>>, String> {
    let txn = tree.begin_with_mode(surrealkv::Mode::ReadOnly).map_err(|e| format!("begin: {e:?}"))?;
    let mut it = txn.range(&[0u8][..], &[0xffu8; 4][..]).map_err(|e| format!("range: {e:?}"))?;
    let mut out = std::collections::BTreeMap::new();
    let mut ok = it.seek_first().map_err(|e| format!("seek_first: {e:?}"))?;
    while ok {
        out.insert(it.key().user_key().to_vec(), it.value().map_err(|e| format!("value: {e:?}"))?);
        ok = it.next().map_err(|e| format!("next: {e:?}"))?;
    }
    Ok(out)
}

async fn close_tree(t: surrealkv::Tree) -> Result<(), String> {
    t.close().await.map_err(|e| format!("close: {e:?}"))?;
    drop(t);
    for _ in 0..3 {
        tokio::task::yield_now().await;
    }
    Ok(())
}

async fn run_store_inner(case: &WalStoreCase, dir: &Path, stats: &mut Stats) -> R<()> {
    use std::collections::BTreeMap;
    surrealkv::verif::set_manual_background(true);
    let pristine = dir.join("pristine");
    // build the pristine store: everything stays in the WAL (flush_on_close = false)
    let mut states: Vec<BTreeMap<Vec<u8>, Vec<u8>>> = vec![BTreeMap::new()];
    {
        let tree = crate::util::build_tree(store_opts(&pristine, false)).map_err(|e| Failure { class: "open-failed".into(), step: usize::MAX, msg: format!("{e:?}"), aux: json!({}) })?;
        for (i, t) in case.txns.iter().enumerate() {
            let mut txn = tree.begin().map_err(|e| Failure { class: "begin-error".into(), step: i, msg: format!("{e:?}"), aux: json!({}) })?;
            let mut st = states.last().unwrap().clone();
            for (k, v) in txn_writes(i, t) {
                txn.set(k.as_slice(), v.as_slice()).map_err(|e| Failure { class: "write-error".into(), step: i, msg: format!("{e:?}"), aux: json!({}) })?;
                st.insert(k, v);
            }
            txn.commit().await.map_err(|e| Failure { class: "commit-error".into(), step: i, msg: format!("{e:?}"), aux: json!({}) })?;
            states.push(st);
        }
        close_tree(tree).await.map_err(|m| Failure { class: "close-error".into(), step: usize::MAX, msg: m, aux: json!({}) })?;
    }
    // locate the segment and its record boundaries
    let wal_dir = pristine.join("wal");
    let mut segs: Vec<PathBuf> = std::fs::read_dir(&wal_dir).map(|rd| rd.flatten().map(|e| e.path()).filter(|p| p.extension().map(|x| x == "wal").unwrap_or(false)).collect()).unwrap_or_default();
    segs.sort();
    if segs.len() != 1 {
        return Ok(()); // not the shape this stage is about
    }
    let seg_name = segs[0].file_name().unwrap().to_owned();
    let data = std::fs::read(&segs[0]).unwrap_or_default();
    let (recs, end) = wal_read_segment(&segs[0]).map_err(|e| Failure { class: "harness-io".into(), step: usize::MAX, msg: e.to_string(), aux: json!({}) })?;
    if end != VerifWalEnd::Eof || recs.len() != case.txns.len() {
        return fail("wal-roundtrip", format!("store wrote {} commits, its segment reads back {} records and ends with {end:?}", case.txns.len(), recs.len()));
    }
    let ends: Vec<u64> = recs.iter().map(|r| r.1).collect();
    let work = dir.join("work");
    let mut n = 0u64;
    let all = damages(data.len(), &ends, case.salt);
    // the store-level path is slower: take every k-th damage, always keeping the ones next to record ends
    let stride = (all.len() / 260).max(1);
    for (di, d) in all.iter().enumerate() {
        let at_raw = match d {
            Dmg::Trunc(o) | Dmg::Flip(o, _) | Dmg::Byte(o, _) => *o,
        };
        let near = ends.iter().any(|e| (*e as i64 - at_raw as i64).abs() <= 8);
        if !near && di % stride != 0 {
            continue;
        }
        n += 1;
        let (bytes, at) = apply(*d, &data);
        crate::util::rm_rf(&work);
        crate::util::copy_dir(&pristine, &work).map_err(|e| Failure { class: "harness-io".into(), step: usize::MAX, msg: e.to_string(), aux: json!({}) })?;
        std::fs::write(work.join("wal").join(&seg_name), &bytes).map_err(|e| Failure { class: "harness-io".into(), step: usize::MAX, msg: e.to_string(), aux: json!({}) })?;
        let must = ends.iter().filter(|e| **e as usize <= at).count();
        let what = format!("{d:?} of the {}-byte WAL segment of a store with {} commits (absolute_consistency={})", data.len(), case.txns.len(), case.absolute);
        let tree = match crate::util::build_tree(store_opts(&work, case.absolute)) {
            Ok(t) => t,
            Err(e) => {
                if case.absolute {
                    // refusing to open is the documented outcome of detected damage in this mode; nothing may have
                    // been modified
                    let now = std::fs::read(work.join("wal").join(&seg_name)).unwrap_or_default();
                    if now != bytes {
                        return fail("absolute-mode-modified-log", format!("{what}: open failed ({e:?}) but the segment was modified"));
                    }
                    stats.inc("absolute_refusals");
                    continue;
                }
                return fail("reopen-failed", format!("{what}: build() failed in the tolerant mode: {e:?}"));
            }
        };
        let got = scan_all(&tree).await.map_err(|m| Failure { class: "read-error".into(), step: usize::MAX, msg: format!("{what}: {m}"), aux: json!({}) })?;
        let j = match states.iter().position(|s| *s == got) {
            Some(j) => j,
            None => {
                let _ = close_tree(tree).await;
                return fail("recovered-state-not-a-prefix", format!("{what}: recovered {} keys, not the state after any prefix of the {} commits", got.len(), case.txns.len()));
            }
        };
        // j = a prefix length consistent with the content (the LAST matching one if states repeat)
        let j = states.iter().rposition(|s| *s == got).unwrap_or(j);
        if j < must {
            let _ = close_tree(tree).await;
            return fail("wal-lost-valid-record", format!("{what}: recovered state equals the state after {j} commits, but {must} commits lie wholly before the damage"));
        }
        // a log cut exactly at a record end is a shorter, undamaged log: nothing to detect
        let clean_cut = matches!(d, Dmg::Trunc(o) if *o == 0 || ends.iter().any(|e| *e as usize == *o));
        if case.absolute && j != case.txns.len() && !clean_cut {
            let _ = close_tree(tree).await;
            return fail("absolute-mode-served-partial-log", format!("{what}: store opened with only {j} of {} commits", case.txns.len()));
        }
        if j < case.txns.len() {
            stats.inc("recovered_proper_prefix");
        }
        // new commits after recovery
        let mut expect = got.clone();
        for p in 0..case.probes {
            let mut txn = tree.begin().map_err(|e| Failure { class: "begin-error".into(), step: usize::MAX, msg: format!("{e:?}"), aux: json!({}) })?;
            let k = format!("probe{p}").into_bytes();
            let v = crate::util::val_bytes(0xabc0 + p as u32, 20 + p as usize);
            txn.set(k.as_slice(), v.as_slice()).map_err(|e| Failure { class: "write-error".into(), step: usize::MAX, msg: format!("{e:?}"), aux: json!({}) })?;
            txn.set_durability(surrealkv::Durability::Immediate);
            if let Err(e) = txn.commit().await {
                let _ = close_tree(tree).await;
                return fail("commit-error", format!("{what}: commit after recovery failed: {e:?}"));
            }
            expect.insert(k, v);
        }
        close_tree(tree).await.map_err(|m| Failure { class: "close-error".into(), step: usize::MAX, msg: format!("{what}: {m}"), aux: json!({}) })?;
        let tree = match crate::util::build_tree(store_opts(&work, case.absolute)) {
            Ok(t) => t,
            Err(e) => return fail("reopen-failed", format!("{what}: second build() (after {} post-recovery commits) failed: {e:?}", case.probes)),
        };
        let got2 = scan_all(&tree).await.map_err(|m| Failure { class: "read-error".into(), step: usize::MAX, msg: format!("{what}: {m}"), aux: json!({}) })?;
        close_tree(tree).await.map_err(|m| Failure { class: "close-error".into(), step: usize::MAX, msg: m, aux: json!({}) })?;
        if got2 != expect {
            let lost: Vec<String> = expect.keys().filter(|k| !got2.contains_key(*k)).map(|k| String::from_utf8_lossy(k).to_string()).collect();
            return fail("commits-after-recovery-lost", format!("{what}: after recovery ({j} commits recovered) {} acknowledged Immediate commits were made; on the next open these keys are missing: {lost:?}", case.probes));
        }
        if case.probes > 0 {
            stats.inc("append_after_recovery");
        }
        if must < case.txns.len() {
            stats.inc("damage_inside");
        }
    }
    stats.add("n_damages", n);
    crate::util::rm_rf(&work);
    Ok(())
}

pub fn run_wal_store_case(case: &WalStoreCase, dir: &Path) -> CaseResult {
    let mut stats = Stats::default();
    let rt = tokio::runtime::Builder::new_current_thread().enable_all().build().expect("runtime");
    let failure = rt.block_on(run_store_inner(case, dir, &mut stats)).err();
    drop(rt);
    let nontrivial = failure.is_none() && stats.has("damage_inside") && (stats.has("append_after_recovery") || stats.has("absolute_refusals"));
    CaseResult { stats, failure, nontrivial }
}

pub fn c12_store() -> PropDef<WalStoreCase> {
    PropDef {
        id: "C12",
        engine: "format",
        level: "fault_enumeration",
        rule: String::new(),
        assumptions: vec![],
        strategy: Arc::new(|| {
            (vec((0u8..4, 0u8..5, any::<u32>()), 1..7), 1u8..3, proptest::bool::weighted(0.25), any::<u16>())
                .prop_map(|(txns, probes, absolute, salt)| WalStoreCase { txns, probes, absolute, salt })
                .boxed()
        }),
        run: Arc::new(|c: &WalStoreCase, d: &Path| run_wal_store_case(c, d)),
        render: Arc::new(|c: &WalStoreCase| json!(c)),
        minimize: None,
        shrink_iters: 40,
    }
}
