//! Case = (Cfg, key pool, step list). Everything a replay needs; no surrealkv types.

use crate::model::Op;
use crate::util::Val;
use serde::{Deserialize, Serialize};
use std::path::Path;
use std::sync::Arc;

#[derive(Clone, Debug, PartialEq, Serialize, Deserialize)]
pub struct Cfg {
    pub level_count: u8,
    pub l0_max: u8,
    pub memtable: u32,
    pub block: u32,
    pub restart: u8,
    pub index_part: u32,
    /// per level: true = snappy
    pub compression: Vec<bool>,
    pub bloom: bool,
    pub cache: u32,
    pub vlog: bool,
    pub vlog_threshold: u32,
    pub vlog_max_file: u32,
    pub vlog_full_checksum: bool,
    pub versioning: bool,
    pub vindex: bool,
    pub retention: u64,
    pub flush_on_close: bool,
    pub max_bytes_l1: u32,
    pub level_mult: u8,
}

impl Default for Cfg {
    fn default() -> Self {
        Cfg {
            level_count: 6,
            l0_max: 4,
            memtable: 64 << 20,
            block: 64 << 10,
            restart: 16,
            index_part: 16384,
            compression: vec![],
            bloom: true,
            cache: 1 << 20,
            vlog: false,
            vlog_threshold: 1024,
            vlog_max_file: 256 << 20,
            vlog_full_checksum: false,
            versioning: false,
            vindex: false,
            retention: 0,
            flush_on_close: true,
            max_bytes_l1: 256 << 20,
            level_mult: 10,
        }
    }
}

/// Settable logical clock handed to the store (hook H8).
#[derive(Debug)]
pub struct HarnessClock(pub std::sync::atomic::AtomicU64);

impl surrealkv::verif::VerifLogicalClock for HarnessClock {
    fn now(&self) -> u64 {
        // strictly increasing per call, like the default clock
        self.0.fetch_add(1, std::sync::atomic::Ordering::SeqCst) + 1
    }
}

impl HarnessClock {
    pub fn new(start: u64) -> Arc<Self> {
        Arc::new(HarnessClock(std::sync::atomic::AtomicU64::new(start)))
    }
    pub fn peek(&self) -> u64 {
        self.0.load(std::sync::atomic::Ordering::SeqCst)
    }
    pub fn advance(&self, dt: u64) {
        self.0.fetch_add(dt, std::sync::atomic::Ordering::SeqCst);
    }
}

impl Cfg {
    /// Normalise combinations rejected by `Options::validate`.
    pub fn normalised(mut self) -> Self {
        if self.vindex && !self.versioning {
            self.vindex = false;
        }
        if self.versioning {
            self.vlog = true;
            self.vlog_threshold = 0;
        }
        if !self.versioning {
            self.retention = 0;
        }
        self.level_count = self.level_count.max(1);
        self.l0_max = self.l0_max.max(1);
        self.restart = self.restart.max(1);
        self
    }

    pub fn options(&self, path: &Path, clock: Option<Arc<HarnessClock>>, manual: bool) -> surrealkv::Options {
        use surrealkv::{CompressionType, Options, VLogChecksumLevel};
        let mut o = Options::new()
            .with_path(path.to_path_buf())
            .with_level_count(self.level_count)
            .with_max_memtable_size(self.memtable as usize)
            .with_block_size(self.block as usize)
            .with_block_restart_interval(self.restart as usize)
            .with_index_partition_size(self.index_part as usize)
            .with_block_cache_capacity(self.cache as u64)
            .with_enable_vlog(self.vlog)
            .with_vlog_value_threshold(self.vlog_threshold as usize)
            .with_vlog_max_file_size(self.vlog_max_file as u64)
            .with_vlog_checksum_verification(if self.vlog_full_checksum {
                VLogChecksumLevel::Full
            } else {
                VLogChecksumLevel::Disabled
            })
            .with_flush_on_close(self.flush_on_close);
        if self.versioning {
            o = o.with_versioning(true, self.retention).with_versioned_index(self.vindex);
        }
        if !self.bloom {
            o = o.with_filter_policy(None);
        }
        if !self.compression.is_empty() {
            o = o.with_compression_per_level(
                self.compression
                    .iter()
                    .map(|&s| if s { CompressionType::SnappyCompression } else { CompressionType::None })
                    .collect(),
            );
        }
        o.level0_max_files = self.l0_max as usize;
        o.max_bytes_for_level = self.max_bytes_l1 as u64;
        o.level_multiplier = self.level_mult as f64;
        if manual {
            o.memtable_stall_threshold = 1_000_000;
            o.l0_stall_threshold = 1_000_000;
        } else {
            o.l0_stall_threshold = o.l0_stall_threshold.max(o.level0_max_files);
        }
        if let Some(c) = clock {
            o = o.verif_with_clock(c);
        }
        o
    }

    /// Upper bound on one value so that any generated batch fits a fresh memtable comfortably.
    pub fn value_cap(&self) -> usize {
        (self.memtable as usize / 24).max(64)
    }
    pub fn txn_budget(&self) -> usize {
        self.memtable as usize / 3
    }
}

/// A value whose length is chosen relative to the configuration (threshold, block size).
#[derive(Clone, Copy, Debug, PartialEq, Eq, Hash, Serialize, Deserialize)]
pub struct VSpec {
    pub cls: u8,
    pub raw: u16,
    pub tag: u32,
}

impl VSpec {
    pub fn resolve(&self, cfg: &Cfg) -> Val {
        let t = cfg.vlog_threshold as usize;
        let b = cfg.block as usize;
        let len = match self.cls % 12 {
            0 => 0,
            1 => 1,
            2 => t.saturating_sub(1),
            3 => t,
            4 => t + 1,
            5 => b.saturating_sub(1),
            6 => b + 1,
            7 => 3 * b,
            8 => 2 + (self.raw as usize % 62),
            9 => self.raw as usize % 600,
            10 => 8 + (self.raw as usize % 24),
            _ => 5,
        };
        Val { len: len.min(cfg.value_cap()) as u32, tag: self.tag }
    }
}

#[derive(Clone, Copy, Debug, PartialEq, Eq, Hash, Serialize, Deserialize)]
pub enum WOp {
    Set(VSpec),
    Delete,
    SoftDelete,
    Replace(VSpec),
}

impl WOp {
    pub fn resolve(&self, cfg: &Cfg) -> Op {
        match self {
            WOp::Set(v) => Op::Set(v.resolve(cfg)),
            WOp::Replace(v) => Op::Replace(v.resolve(cfg)),
            WOp::Delete => Op::Delete,
            WOp::SoftDelete => Op::SoftDelete,
        }
    }
}

#[derive(Clone, Copy, Debug, PartialEq, Eq, Hash, Serialize, Deserialize)]
pub enum TMode {
    RW,
    RO,
    WO,
}

/// Reference to a pool key (scaled monotonically: idx = k * len >> 16).
pub type K = u16;

/// A bound or seek target derived from the pool.
#[derive(Clone, Copy, Debug, PartialEq, Eq, Hash, Serialize, Deserialize)]
pub enum B {
    /// absent bound
    None,
    /// exactly pool key
    At(K),
    /// pool key followed by 0x00: the immediate successor (a gap)
    After(K),
    /// pool key without its last byte (if longer than 1): usually a gap before it
    Trunc(K),
    /// 0xff x 8: after every pool key
    Max,
    /// single 0x00 byte: before every pool key
    Min,
}

#[derive(Clone, Copy, Debug, PartialEq, Eq, Hash, Serialize, Deserialize)]
pub enum CurOp {
    Seek(B),
    First,
    Last,
    Next,
    Prev,
}

#[derive(Clone, Debug, PartialEq, Eq, Hash, Serialize, Deserialize)]
pub struct W {
    pub k: K,
    pub op: WOp,
    pub ts: Option<u64>,
}

#[derive(Clone, Debug, PartialEq, Eq, Hash, Serialize, Deserialize)]
pub enum Step {
    // ---- transactions held in slots ----
    Begin { slot: u8, mode: TMode },
    Write { slot: u8, w: W },
    /// write with a literal key (used for the empty-key rejection check)
    WriteRaw { slot: u8, key: Vec<u8>, op: WOp },
    Get { slot: u8, k: K },
    GetRaw { slot: u8, key: Vec<u8> },
    GetAt { slot: u8, k: K, ts: u64 },
    Scan { slot: u8, lo: B, hi: B, rev: bool, opts_api: bool },
    CursorOpen { slot: u8, lo: B, hi: B, opts_api: bool },
    Cursor { slot: u8, op: CurOp },
    CursorClose { slot: u8 },
    History { slot: u8, lo: B, hi: B, tombstones: bool, ts_range: Option<(u64, u64)>, limit: Option<u8>, rev: bool },
    Savepoint { slot: u8 },
    RollbackSp { slot: u8 },
    Commit { slot: u8, sync: bool },
    Rollback { slot: u8 },
    DropTxn { slot: u8 },
    // ---- one-shot committed transaction ----
    Txn { ws: Vec<W>, sync: bool, wo: bool },
    // ---- physical ----
    Rotate,
    FlushOldest,
    FlushAll,
    Compact { rounds: u8 },
    Reopen,
    FlushWal { sync: bool },
    AdvanceClock { dt: u32 },
    /// Restrict the keys chosen by subsequent writes to a window of the pool (disjoint key-range phases produce
    /// several non-overlapping tables on deeper levels). Purely a generator device: reads are unaffected.
    KeyWindow { lo: u16, len: u16 },
    // ---- checkpoints ----
    Checkpoint { n: u8 },
    Restore { n: u8 },
    OpenCheckpoint { n: u8 },
}

impl Step {
    pub fn is_physical(&self) -> bool {
        matches!(self, Step::Rotate | Step::FlushOldest | Step::FlushAll | Step::Compact { .. } | Step::Reopen | Step::FlushWal { .. })
    }
}

#[derive(Clone, Debug, PartialEq, Serialize, Deserialize)]
pub struct Case {
    pub cfg: Cfg,
    pub pool: Vec<Vec<u8>>,
    pub steps: Vec<Step>,
}

impl Case {
    pub fn key(&self, k: K) -> &[u8] {
        let i = (k as usize * self.pool.len()) >> 16;
        &self.pool[i]
    }
    /// Key for a write under a key window (lo, len) given as fractions of the pool.
    pub fn wkey(&self, k: K, win: Option<(u16, u16)>) -> &[u8] {
        match win {
            None => self.key(k),
            Some((lo, len)) => {
                let n = self.pool.len();
                let start = (lo as usize * n) >> 16;
                let width = (((len as usize).max(1) * n) >> 16).max(1).min(n - start);
                let i = start + ((k as usize * width) >> 16);
                &self.pool[i.min(n - 1)]
            }
        }
    }
    pub fn bound(&self, b: B) -> Option<Vec<u8>> {
        match b {
            B::None => None,
            B::At(k) => Some(self.key(k).to_vec()),
            B::After(k) => {
                let mut v = self.key(k).to_vec();
                v.push(0);
                Some(v)
            }
            B::Trunc(k) => {
                let key = self.key(k);
                if key.len() > 1 {
                    Some(key[..key.len() - 1].to_vec())
                } else {
                    Some(key.to_vec())
                }
            }
            B::Max => Some(vec![0xff; 8]),
            B::Min => Some(vec![0x00]),
        }
    }
    /// Human-readable rendering for evidence samples.
    pub fn render(&self, max_steps: usize) -> serde_json::Value {
        let steps: Vec<String> = self
            .steps
            .iter()
            .take(max_steps)
            .map(|s| {
                let mut t = format!("{s:?}");
                if t.len() > 160 {
                    t.truncate(160);
                    t.push_str("..");
                }
                t
            })
            .collect();
        serde_json::json!({
            "cfg": self.cfg,
            "pool": self.pool.iter().map(|k| crate::util::key_str(k)).collect::<Vec<_>>(),
            "n_steps": self.steps.len(),
            "steps": steps,
        })
    }
}
