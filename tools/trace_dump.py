#!/usr/bin/env python3
"""trace_dump.py <trace.bin> [root]  - prints a recorded file-operation trace"""
import struct,sys
d=open(sys.argv[1],'rb').read(); root=(sys.argv[2].rstrip('/')+'/') if len(sys.argv)>2 else ''
names={1:'OPEN',2:'CLOSE',3:'WRITE',4:'FSYNC',5:'FTRUNC',6:'RENAME',7:'UNLINK',8:'MKDIR',9:'RMDIR',10:'MARK',11:'FSYNCDIR',12:'FAULT',13:'LINK'}
o=0;n=0
while o<len(d):
    tl,=struct.unpack_from('<I',d,o); op=d[o+4]; fd,off,res=struct.unpack_from('<iqq',d,o+5); p=o+25
    l1,=struct.unpack_from('<H',d,p); p+=2; p1=d[p:p+l1].decode(errors='replace'); p+=l1
    l2,=struct.unpack_from('<H',d,p); p+=2; p2=d[p:p+l2].decode(errors='replace'); p+=l2
    dl,=struct.unpack_from('<I',d,p); p+=4; data=d[p:p+dl]
    if op==10: print(n+1,'MARK',data.decode())
    else: print(n+1,names.get(op,op),fd,off,res,p1.replace(root,''),p2.replace(root,''),dl if op==3 else '')
    o+=tl; n+=1
