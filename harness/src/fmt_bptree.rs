//! Engine D / C18: the disk B+tree against `BTreeMap`, with page accounting after every mutation.

use crate::exec::{Failure, Stats};
use crate::runner::{CaseResult, PropDef};
use proptest::collection::vec;
use proptest::prelude::*;
use serde::{Deserialize, Serialize};
use serde_json::json;
use std::cmp::Reverse;
use std::collections::BTreeMap;
use std::ops::Bound;
use std::path::Path;
use std::sync::Arc;
use surrealkv::bplustree::tree::BPlusTree;
use surrealkv::{BytewiseComparator, Comparator, LSMIterator, TimestampComparator};

#[derive(Clone, Debug, PartialEq, Eq, Serialize, Deserialize)]
pub enum BtOp {
    Insert { k: u16, vs: u8, tag: u32 },
    Delete { k: u16 },
    Get { k: u16 },
    Range { lo: u16, hi: u16, lo_kind: u8, hi_kind: u8 },
    ScanAll,
    Walk { start: u16, steps: Vec<bool> },
    /// insert a run of consecutive keys
    FillRun { from: u16, n: u8, vs: u8, tag: u32 },
    /// delete a run of consecutive keys, ascending / descending / middle-out
    DeleteRun { from: u16, n: u8, order: u8 },
    Reopen,
    Flush,
}

#[derive(Clone, Debug, PartialEq, Eq, Serialize, Deserialize)]
pub struct BtCase {
    pub ts_cmp: bool,
    pub nkeys: u16,
    /// selects the key-size skew
    pub skew: u8,
    pub ops: Vec<BtOp>,
}

#[derive(Clone, Debug, PartialEq, Eq, PartialOrd, Ord)]
enum MKey {
    B(Vec<u8>),
    T(Vec<u8>, Reverse<u64>),
}

fn mix(a: u64, b: u64) -> u64 {
    let mut z = a.wrapping_mul(0x9E37_79B9_7F4A_7C15) ^ b.wrapping_mul(0xBF58_476D_1CE4_E5B9);
    z ^= z >> 29;
    z = z.wrapping_mul(0x94D0_49BB_1331_11EB);
    z ^ (z >> 32)
}

fn fill(prefix: &[u8], len: usize, salt: u64) -> Vec<u8> {
    let mut v = prefix.to_vec();
    let mut x = salt | 1;
    while v.len() < len {
        x ^= x << 13;
        x ^= x >> 7;
        x ^= x << 17;
        v.push(b'a' + (x % 26) as u8);
    }
    v
}

impl BtCase {
    fn idx(&self, k: u16) -> usize {
        (k as usize * self.nkeys.max(1) as usize) >> 16
    }
    fn key_len(&self, i: usize) -> usize {
        let h = mix(self.skew as u64 + 1, i as u64) % 100;
        if self.skew >= 100 {
            // no key needs an overflow chain on its own (values still do)
            return 16 + (mix(self.skew as u64, i as u64) % 600) as usize;
        }
        let big = match self.skew % 4 {
            0 => 4,  // mostly tiny
            1 => 20, // a fifth around the local-cell limit
            2 => 35,
            _ => 10,
        };
        if h < big {
            match h % 4 {
                0 => 960 + (h as usize % 90),
                1 => 4090 + (h as usize % 8),
                2 => 1020,
                _ => 9000 + (h as usize % 50),
            }
        } else {
            16 + (h as usize % 10)
        }
    }
    /// (raw key bytes handed to the tree, model key)
    fn key(&self, i: usize) -> (Vec<u8>, MKey) {
        if self.ts_cmp {
            // several timestamps per user key
            let uk_i = i / 3;
            let ts = 10 + (i % 3) as u64 * 10;
            let uk = fill(format!("u{uk_i:05}-").as_bytes(), self.key_len(uk_i).max(8), uk_i as u64);
            let enc = surrealkv::verif::internal_key_encode(&uk, 1000 + i as u64, 2, ts);
            (enc, MKey::T(uk, Reverse(ts)))
        } else {
            let kb = fill(format!("k{i:05}-").as_bytes(), self.key_len(i), i as u64);
            (kb.clone(), MKey::B(kb))
        }
    }
    fn val(&self, vs: u8, tag: u32) -> Vec<u8> {
        let len = match vs % 9 {
            0 => 0,
            1 => 1 + (tag as usize % 40),
            2 => 900 + (tag as usize % 200),
            3 => 4082,
            4 => 4083,
            5 => 4084,
            6 => 8200 + (tag as usize % 100),
            7 => 300,
            _ => 5,
        };
        crate::util::val_bytes(tag, len)
    }
}

type Tree = BPlusTree<std::fs::File>;

struct Bt<'a> {
    case: &'a BtCase,
    path: std::path::PathBuf,
    tree: Option<Tree>,
    model: BTreeMap<MKey, Vec<u8>>,
    stats: Stats,
    step: usize,
    last_nodes: u64,
    last_overflow: u64,
    last_free: u64,
}

type R<T> = Result<T, Failure>;

impl<'a> Bt<'a> {
    fn fail<T>(&self, class: &str, msg: String) -> R<T> {
        Err(Failure { class: class.into(), step: self.step, msg, aux: json!({}) })
    }
    fn cmp(&self) -> Arc<dyn Comparator> {
        if self.case.ts_cmp {
            Arc::new(TimestampComparator::new(Arc::new(BytewiseComparator::default())))
        } else {
            Arc::new(BytewiseComparator::default())
        }
    }
    fn open(&mut self) -> R<()> {
        match BPlusTree::disk(&self.path, self.cmp()) {
            Ok(t) => {
                self.tree = Some(t);
                Ok(())
            }
            Err(e) => self.fail("open-error", format!("BPlusTree::disk failed: {e}")),
        }
    }
    fn t(&mut self) -> &mut Tree {
        self.tree.as_mut().unwrap()
    }
    fn accounting(&mut self) -> R<()> {
        let acc = match self.tree.as_ref().unwrap().verif_page_accounting() {
            Ok(a) => a,
            Err(e) => return self.fail("accounting-error", format!("page walk failed: {e}")),
        };
        if !acc.problems.is_empty() {
            return self.fail("page-accounting", format!("{:?} (total_pages={}, nodes={}, overflow={}, trunk={}, free={})", acc.problems, acc.total_pages, acc.tree_nodes, acc.overflow_pages, acc.trunk_pages, acc.free_listed));
        }
        if acc.keys != self.model.len() as u64 {
            return self.fail("key-count", format!("tree holds {} keys, model {}", acc.keys, self.model.len()));
        }
        if acc.tree_nodes > self.last_nodes && self.last_nodes > 0 {
            self.stats.inc("splits");
        }
        if acc.tree_nodes < self.last_nodes {
            self.stats.inc("merges");
        }
        if acc.overflow_pages > self.last_overflow {
            self.stats.inc("overflow_alloc");
        }
        if acc.overflow_pages < self.last_overflow {
            self.stats.inc("overflow_free");
        }
        if acc.free_listed < self.last_free {
            self.stats.inc("free_list_reuse");
        }
        if acc.trunk_pages > 0 {
            self.stats.inc("trunk_pages_seen");
        }
        self.last_nodes = acc.tree_nodes;
        self.last_overflow = acc.overflow_pages;
        self.last_free = acc.free_listed;
        Ok(())
    }
    fn insert(&mut self, i: usize, vs: u8, tag: u32) -> R<()> {
        let (kb, mk) = self.case.key(i);
        let v = self.case.val(vs, tag);
        if let Err(e) = self.t().insert(&kb, &v) {
            return self.fail("insert-error", format!("insert key #{i} ({} B) value {} B failed: {e}", kb.len(), v.len()));
        }
        if self.model.insert(mk, v).is_some() {
            self.stats.inc("overwrites");
        }
        Ok(())
    }
    fn delete(&mut self, i: usize) -> R<()> {
        let (kb, mk) = self.case.key(i);
        let exp = self.model.remove(&mk);
        match self.t().delete(&kb) {
            Ok(got) => {
                let g = got.map(|b| b.to_vec());
                if g != exp {
                    return self.fail("delete-result", format!("delete key #{i}: returned {:?} bytes, model {:?} bytes", g.map(|v| v.len()), exp.map(|v| v.len())));
                }
                Ok(())
            }
            Err(e) => self.fail("delete-error", format!("delete key #{i} failed: {e}")),
        }
    }
    fn get(&mut self, i: usize) -> R<()> {
        let (kb, mk) = self.case.key(i);
        let exp = self.model.get(&mk).cloned();
        match self.tree.as_ref().unwrap().get(&kb) {
            Ok(got) => {
                let g = got.map(|b| b.to_vec());
                if g != exp {
                    return self.fail(
                        if g.is_none() { "get-missing" } else if exp.is_none() { "get-phantom" } else { "get-wrong-value" },
                        format!("get key #{i}: got {:?} bytes, model {:?} bytes", g.map(|v| v.len()), exp.map(|v| v.len())),
                    );
                }
                Ok(())
            }
            Err(e) => self.fail("get-error", format!("get key #{i} failed: {e}")),
        }
    }
    fn mkey_of_raw(&self, raw: &[u8]) -> MKey {
        if self.case.ts_cmp {
            let n = raw.len() - 16;
            let ts = u64::from_be_bytes(raw[n + 8..].try_into().unwrap());
            MKey::T(raw[..n].to_vec(), Reverse(ts))
        } else {
            MKey::B(raw.to_vec())
        }
    }
    fn range(&mut self, lo: Option<(usize, bool)>, hi: Option<(usize, bool)>) -> R<()> {
        let lo_k = lo.map(|(i, inc)| (self.case.key(i), inc));
        let hi_k = hi.map(|(i, inc)| (self.case.key(i), inc));
        // inverted or empty ranges are a caller error for std's BTreeMap::range; the model filters instead
        let exp: Vec<(MKey, Vec<u8>)> = self
            .model
            .iter()
            .filter(|(k, _)| match &lo_k {
                None => true,
                Some(((_, m), true)) => *k >= m,
                Some(((_, m), false)) => *k > m,
            })
            .filter(|(k, _)| match &hi_k {
                None => true,
                Some(((_, m), true)) => *k <= m,
                Some(((_, m), false)) => *k < m,
            })
            .map(|(k, v)| (k.clone(), v.clone()))
            .collect();
        let lo_raw = lo_k.as_ref().map(|((r, _), _)| r.clone());
        let hi_raw = hi_k.as_ref().map(|((r, _), _)| r.clone());
        let lb: Bound<&[u8]> = match (&lo_raw, lo.map(|l| l.1)) {
            (Some(r), Some(true)) => Bound::Included(r.as_slice()),
            (Some(r), Some(false)) => Bound::Excluded(r.as_slice()),
            _ => Bound::Unbounded,
        };
        let hb: Bound<&[u8]> = match (&hi_raw, hi.map(|l| l.1)) {
            (Some(r), Some(true)) => Bound::Included(r.as_slice()),
            (Some(r), Some(false)) => Bound::Excluded(r.as_slice()),
            _ => Bound::Unbounded,
        };
        let tree = self.tree.as_ref().unwrap();
        let it = match tree.range((lb, hb)) {
            Ok(i) => i,
            Err(e) => return self.fail("range-error", format!("range failed: {e}")),
        };
        let mut got: Vec<(MKey, Vec<u8>)> = Vec::new();
        for item in it {
            match item {
                Ok((k, v)) => got.push((self.mkey_of_raw(&k), v.to_vec())),
                Err(e) => return self.fail("range-error", format!("range item failed: {e}")),
            }
            if got.len() > exp.len() + 8 {
                break;
            }
        }
        if got != exp {
            let class = if got.len() < exp.len() { "range-missing" } else if got.len() > exp.len() { "range-extra" } else { "range-mismatch" };
            return self.fail(class, format!("range lo={lo:?} hi={hi:?}: got {} entries, model {} (first difference at {:?})", got.len(), exp.len(), got.iter().zip(exp.iter()).position(|(a, b)| a != b)));
        }
        if exp.len() >= 3 {
            self.stats.inc("range_ge3");
        }
        Ok(())
    }
    fn walk(&mut self, start: usize, steps: &[bool]) -> R<()> {
        let (raw, mk) = self.case.key(start);
        let list: Vec<(MKey, Vec<u8>)> = self.model.iter().map(|(k, v)| (k.clone(), v.clone())).collect();
        let mut pos = list.iter().position(|(k, _)| *k >= mk);
        let tree = self.tree.as_ref().unwrap();
        let mut it = tree.internal_iterator();
        let mut ret = match it.seek(&raw) {
            Ok(b) => b,
            Err(e) => return self.fail("cursor-error", format!("seek failed: {e}")),
        };
        let mut n = 0;
        loop {
            let valid = it.valid();
            if ret != valid || valid != pos.is_some() {
                return self.fail("cursor-validity", format!("walk from key #{start} after {n} moves: returned {ret}, valid()={valid}, model position {pos:?} of {}", list.len()));
            }
            if let Some(p) = pos {
                let k = self.mkey_of_raw(it.key().encoded());
                let v = match it.value_encoded() {
                    Ok(v) => v.to_vec(),
                    Err(e) => return self.fail("cursor-error", format!("value failed: {e}")),
                };
                if k != list[p].0 || v != list[p].1 {
                    return self.fail("cursor-entry", format!("walk from key #{start} after {n} moves: cursor entry differs from model entry {p}"));
                }
            }
            if n >= steps.len() || pos.is_none() {
                break;
            }
            let fwd = steps[n];
            n += 1;
            let p = pos.unwrap();
            if fwd {
                pos = if p + 1 < list.len() { Some(p + 1) } else { None };
                ret = match it.next() {
                    Ok(b) => b,
                    Err(e) => return self.fail("cursor-error", format!("next failed: {e}")),
                };
            } else {
                pos = if p > 0 { Some(p - 1) } else { None };
                ret = match it.prev() {
                    Ok(b) => b,
                    Err(e) => return self.fail("cursor-error", format!("prev failed: {e}")),
                };
            }
        }
        self.stats.inc("walks");
        Ok(())
    }
    fn reopen(&mut self) -> R<()> {
        if let Some(t) = self.tree.take() {
            if let Err(e) = t.close() {
                return self.fail("close-error", format!("close failed: {e}"));
            }
            drop(t);
        }
        self.open()?;
        self.stats.inc("reopens");
        // everything must still be there
        let keys: Vec<MKey> = self.model.keys().cloned().collect();
        let _ = keys;
        self.range(None, None)?;
        self.accounting()
    }
    fn run(&mut self) -> R<()> {
        self.open()?;
        let n = self.case.nkeys.max(1) as usize;
        let ops = &self.case.ops;
        for (si, op) in ops.iter().enumerate() {
            self.step = si;
            match op {
                BtOp::Insert { k, vs, tag } => {
                    let i = self.case.idx(*k);
                    self.insert(i, *vs, *tag)?;
                    self.accounting()?;
                }
                BtOp::Delete { k } => {
                    let i = self.case.idx(*k);
                    self.delete(i)?;
                    self.accounting()?;
                }
                BtOp::Get { k } => {
                    let i = self.case.idx(*k);
                    self.get(i)?;
                }
                BtOp::Range { lo, hi, lo_kind, hi_kind } => {
                    let (a, b) = (self.case.idx(*lo), self.case.idx(*hi));
                    let (a, b) = (a.min(b), a.max(b));
                    let lo_b = match lo_kind % 3 {
                        0 => None,
                        1 => Some((a, true)),
                        _ => Some((a, false)),
                    };
                    let hi_b = match hi_kind % 3 {
                        0 => None,
                        1 => Some((b, true)),
                        _ => Some((b, false)),
                    };
                    // std-like contract: an excluded..excluded range over one key is not issued
                    if a == b && matches!((lo_b, hi_b), (Some((_, false)), Some((_, false)))) {
                        continue;
                    }
                    self.range(lo_b, hi_b)?;
                }
                BtOp::ScanAll => self.range(None, None)?,
                BtOp::Walk { start, steps } => {
                    let i = self.case.idx(*start);
                    self.walk(i, steps)?;
                }
                BtOp::FillRun { from, n: cnt, vs, tag } => {
                    let s = self.case.idx(*from);
                    for j in 0..(*cnt as usize) {
                        self.insert((s + j) % n, *vs, tag.wrapping_add(j as u32))?;
                    }
                    self.accounting()?;
                }
                BtOp::DeleteRun { from, n: cnt, order } => {
                    let s = self.case.idx(*from);
                    let c = *cnt as usize;
                    let idxs: Vec<usize> = match order % 3 {
                        0 => (0..c).map(|j| (s + j) % n).collect(),
                        1 => (0..c).rev().map(|j| (s + j) % n).collect(),
                        _ => {
                            let mut v = Vec::new();
                            let (mut l, mut r) = (c as isize / 2, c as isize / 2 + 1);
                            while l >= 0 || (r as usize) < c {
                                if l >= 0 {
                                    v.push((s + l as usize) % n);
                                    l -= 1;
                                }
                                if (r as usize) < c {
                                    v.push((s + r as usize) % n);
                                    r += 1;
                                }
                            }
                            v
                        }
                    };
                    for i in idxs {
                        self.delete(i)?;
                    }
                    self.accounting()?;
                }
                BtOp::Reopen => self.reopen()?,
                BtOp::Flush => {
                    if let Err(e) = self.t().flush() {
                        return self.fail("flush-error", format!("flush failed: {e}"));
                    }
                }
            }
        }
        self.step = ops.len();
        self.range(None, None)?;
        for i in 0..n {
            self.get(i)?;
        }
        self.reopen()?;
        for i in 0..n {
            self.get(i)?;
        }
        Ok(())
    }
}

pub fn run_bt_case(case: &BtCase, dir: &Path) -> CaseResult {
    let _ = std::fs::create_dir_all(dir);
    let mut bt = Bt { case, path: dir.join("index.bpt"), tree: None, model: BTreeMap::new(), stats: Stats::default(), step: 0, last_nodes: 0, last_overflow: 0, last_free: 0 };
    let failure = bt.run().err();
    drop(bt.tree.take());
    let s = &bt.stats;
    let nontrivial = failure.is_none() && s.has("splits") && s.has("merges") && s.has("overflow_alloc") && s.has("overflow_free");
    CaseResult { stats: bt.stats, failure, nontrivial }
}

fn op_strategy() -> BoxedStrategy<BtOp> {
    prop_oneof![
        20 => (any::<u16>(), 0u8..9, any::<u32>()).prop_map(|(k, vs, tag)| BtOp::Insert { k, vs, tag }),
        12 => any::<u16>().prop_map(|k| BtOp::Delete { k }),
        6 => any::<u16>().prop_map(|k| BtOp::Get { k }),
        5 => (any::<u16>(), any::<u16>(), 0u8..3, 0u8..3).prop_map(|(lo, hi, lo_kind, hi_kind)| BtOp::Range { lo, hi, lo_kind, hi_kind }),
        1 => Just(BtOp::ScanAll),
        4 => (any::<u16>(), vec(any::<bool>(), 0..12)).prop_map(|(start, steps)| BtOp::Walk { start, steps }),
        8 => (any::<u16>(), 2u8..40, 0u8..9, any::<u32>()).prop_map(|(from, n, vs, tag)| BtOp::FillRun { from, n, vs, tag }),
        8 => (any::<u16>(), 2u8..40, 0u8..3).prop_map(|(from, n, order)| BtOp::DeleteRun { from, n, order }),
        2 => Just(BtOp::Reopen),
        1 => Just(BtOp::Flush),
    ]
    .boxed()
}

pub fn bt_strategy(max_ops: usize, big_keys: bool) -> BoxedStrategy<BtCase> {
    let skew = if big_keys { (0u8..8).boxed() } else { (100u8..108).boxed() };
    (any::<bool>(), prop_oneof![Just(12u16), Just(40), Just(90), Just(200)], skew, vec(op_strategy(), 5..=max_ops))
        .prop_map(|(ts_cmp, nkeys, skew, ops)| BtCase { ts_cmp, nkeys, skew, ops })
        .boxed()
}

pub fn minimize_bt(case: &BtCase, f: &Failure, still_fails: &dyn Fn(&BtCase) -> Option<Failure>) -> BtCase {
    let mut best = case.clone();
    let class = f.class.clone();
    let same = |c: &BtCase| still_fails(c).filter(|g| g.class == class);
    if f.step != usize::MAX && f.step + 1 < best.ops.len() {
        let mut c = best.clone();
        c.ops.truncate(f.step + 1);
        if same(&c).is_some() {
            best = c;
        }
    }
    for _ in 0..3 {
        let mut changed = false;
        let mut i = best.ops.len();
        while i > 0 {
            i -= 1;
            if best.ops.len() <= 1 {
                break;
            }
            let mut c = best.clone();
            c.ops.remove(i);
            if same(&c).is_some() {
                best = c;
                changed = true;
            }
        }
        if !changed {
            break;
        }
    }
    best
}

pub fn c18(max_ops: usize, big_keys: bool) -> PropDef<BtCase> {
    PropDef {
        id: "C18",
        engine: "format",
        level: "exploration",
        rule: "case = comparator (bytewise / timestamp order over encoded internal keys with 3 timestamps per user key) + key universe of 12..200 keys with a size skew (16-25 B, ~1000 B around the local-cell limit, ~4090 B, ~9000 B) + 5..N operations (insert with value sizes 0 / small / ~1000 / 4082..4084 / ~8200, delete, get, range with all bound kinds, full scan, cursor walks with reversals, fill runs, delete runs ascending / descending / middle-out, reopen, flush). Oracle: BTreeMap under the same order after every operation, and a read-only page walk after every mutation (every page is exactly one of header / reachable node / overflow page of a reachable cell / trunk page / free-list entry; leaf chain equals key order; header free count equals the list). Non-trivial: the case caused at least one split, one merge, one overflow-chain allocation and one overflow-chain free (measured from the page walk). Distinct = hash of the serialised case."
            .into(),
        assumptions: vec![
            "BTreeMap model and the hook's page walk (src/bplustree/tree.rs verif_page_accounting, read-only) are the trusted base".into(),
            "range bounds are issued in comparator order (lo <= hi), never Excluded..Excluded over a single key".into(),
            "bounded: <= 200 keys, <= 9 KiB keys/values, op lists <= stated length".into(),
        ],
        strategy: Arc::new(move || bt_strategy(max_ops, big_keys)),
        run: Arc::new(|c: &BtCase, d: &Path| run_bt_case(c, d)),
        render: Arc::new(|c: &BtCase| {
            json!({"ts_cmp": c.ts_cmp, "nkeys": c.nkeys, "skew": c.skew, "n_ops": c.ops.len(), "ops": c.ops.iter().take(40).map(|o| format!("{o:?}")).collect::<Vec<_>>()})
        }),
        minimize: Some(Arc::new(minimize_bt)),
        shrink_iters: 1500,
    }
}
