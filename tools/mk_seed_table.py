#!/usr/bin/env python3
"""Regenerates the seed table of DESIGN.md section 10 (between '<!-- seeds:begin -->' and '<!-- seeds:end -->') from
seeded/*/meta.json."""
import json, glob, os, re
ROOT='/verif'
rows=[]
def keyf(name):
    m=re.match(r'C(\d+)([b-z]?)-(\d+)(o?)',name)
    return (int(m.group(1)), m.group(2), int(m.group(3)), m.group(4))
for d in sorted((os.path.basename(x) for x in glob.glob(f'{ROOT}/seeded/C*')), key=keyf):
    m=json.load(open(f'{ROOT}/seeded/{d}/meta.json'))
    needs=m.get('needs_to_manifest','').replace('|','/').replace('\n',' ')
    rows.append(f"| {d} | {m['property']} | {needs} | {', '.join(m.get('detected_by',[])) or 'NOT CAUGHT'} |")
block="<!-- seeds:begin -->\n| seed | breaks | what it needs to manifest | caught by |\n|------|--------|---------------------------|-----------|\n"+"\n".join(rows)+"\n<!-- seeds:end -->"
p=f'{ROOT}/DESIGN.md'; s=open(p).read()
if '<!-- seeds:begin -->' in s:
    s=re.sub(r'<!-- seeds:begin -->.*?<!-- seeds:end -->', lambda m: block, s, flags=re.S)
else:
    a=s.index('| seed | breaks | what it needs to manifest | caught by |')
    b=s.index('\n\n', a)
    s=s[:a]+block+s[b:]
open(p,'w').write(s)
print(len(rows),'seeds')
