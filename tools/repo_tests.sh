#!/bin/bash
# Runs the repository's own test suite with the verif guard OFF and prints a summary.
cd /repo && CARGO_NET_OFFLINE=true cargo test --workspace --no-fail-fast --offline > /tmp/repo-test.log 2>&1
echo "exit=$?"; grep -E "^test result" /tmp/repo-test.log; grep -E "\.\.\. FAILED" /tmp/repo-test.log | head -20
