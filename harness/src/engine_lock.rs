//! Engine E / C19: one live instance per database directory, in one process and across processes.

use crate::exec::{Failure, Stats};
use crate::runner::{CaseResult, PropDef};
use crate::util::tree_digest;
use proptest::collection::vec;
use proptest::prelude::*;
use serde::{Deserialize, Serialize};
use serde_json::json;
use std::collections::BTreeMap;
use std::io::{BufRead, BufReader, Write};
use std::path::{Path, PathBuf};
use std::process::{Child, ChildStdin, ChildStdout, Command, Stdio};
use std::sync::Arc;
use surrealkv::LSMIterator;

#[derive(Clone, Debug, PartialEq, Eq, Serialize, Deserialize)]
pub enum LockOp {
    OpenIn(u8),
    CloseIn(u8),
    DropIn(u8),
    OpenChild(u8),
    CloseChild(u8),
    KillChild(u8),
    Commit,
    /// the in-process owner takes a checkpoint and restores it at once (the state does not change; the lock must stay)
    CheckpointRestore,
    /// n racers (threads in this process, or child processes) try to open at the same time
    Race { n: u8, children: bool },
    /// nobody owns the directory: garbage is appended to the newest WAL segment and an open in AbsoluteConsistency mode is
    /// attempted, which FAILS (after the lock has been taken); nobody owns the directory afterwards either
    FailingOpen,
    /// the in-process owner begins a transaction that is kept alive (also across close / drop of the store handle)
    HoldTxn,
    /// the oldest transaction that is kept alive is dropped
    DropHeldTxn,
}

#[derive(Clone, Debug, PartialEq, Eq, Serialize, Deserialize)]
pub struct LockCase {
    /// commits made by a first owner before the sequence starts (gives recovery something to do)
    pub prelude: u8,
    pub ops: Vec<LockOp>,
}

struct ChildProc {
    child: Child,
    stdin: ChildStdin,
    stdout: BufReader<ChildStdout>,
}

impl ChildProc {
    fn spawn(dir: &Path) -> std::io::Result<(ChildProc, String)> {
        let exe = std::env::current_exe()?.parent().unwrap().join("opener");
        let mut child = crate::util::spawn_child(Command::new(exe).arg(dir).stdin(Stdio::piped()).stdout(Stdio::piped()).stderr(Stdio::null()))?;
        let stdin = child.stdin.take().unwrap();
        let mut stdout = BufReader::new(child.stdout.take().unwrap());
        let mut line = String::new();
        stdout.read_line(&mut line)?;
        Ok((ChildProc { child, stdin, stdout }, line.trim().to_string()))
    }
    fn cmd(&mut self, c: &str) -> std::io::Result<String> {
        writeln!(self.stdin, "{c}")?;
        self.stdin.flush()?;
        let mut line = String::new();
        self.stdout.read_line(&mut line)?;
        Ok(line.trim().to_string())
    }
    fn kill(mut self) {
        let _ = self.child.kill();
        let _ = self.child.wait();
    }
    fn reap(mut self) {
        let _ = self.child.wait();
    }
}

#[derive(Clone, Copy, Debug, PartialEq, Eq)]
enum Owner {
    In(u8),
    Child(u8),
}

fn opts(dir: &Path) -> surrealkv::Options {
    let mut o = surrealkv::Options::new().with_path(dir.to_path_buf()).with_flush_on_close(false);
    o.memtable_stall_threshold = 1_000_000;
    o.l0_stall_threshold = 1_000_000;
    o
}

type R<T> = Result<T, Failure>;

fn fail<T>(class: &str, step: usize, msg: String) -> R<T> {
    Err(Failure { class: class.into(), step, msg, aux: json!({}) })
}

struct St {
    dir: PathBuf,
    owner: Option<Owner>,
    ins: BTreeMap<u8, surrealkv::Tree>,
    children: BTreeMap<u8, ChildProc>,
    model: BTreeMap<String, String>,
    n_commit: u32,
    n_cp: u32,
    stats: Stats,
    last_release: Option<&'static str>,
    /// transactions kept alive (they hold the core of the store they were begun on)
    held: Vec<surrealkv::Transaction>,
}

impl St {
    fn scan(tree: &surrealkv::Tree) -> Result<BTreeMap<String, String>, String> {
        let txn = tree.begin_with_mode(surrealkv::Mode::ReadOnly).map_err(|e| format!("{e:?}"))?;
        let mut it = txn.range(&[0u8][..], &[0xffu8; 4][..]).map_err(|e| format!("{e:?}"))?;
        let mut out = BTreeMap::new();
        let mut ok = it.seek_first().map_err(|e| format!("{e:?}"))?;
        while ok {
            out.insert(String::from_utf8_lossy(it.key().user_key()).to_string(), String::from_utf8_lossy(&it.value().map_err(|e| format!("{e:?}"))?).to_string());
            ok = it.next().map_err(|e| format!("{e:?}"))?;
        }
        Ok(out)
    }

    async fn wait_released(&mut self) {
        // Tree::drop spawns close() on the runtime; give it the chance to run
        for _ in 0..20 {
            tokio::task::yield_now().await;
        }
    }

    async fn open_in(&mut self, i: u8, step: usize) -> R<()> {
        if self.ins.contains_key(&i) {
            return Ok(());
        }
        let before = tree_digest(&self.dir, &["LOCK"]);
        // an opener that must be refused may come with OTHER options than the owner's (versioning, version index, value
        // log): whatever it would create for them must not appear either
        let o = if self.owner.is_some() && i == 2 {
            self.stats.inc("refused_open_with_other_options");
            opts(&self.dir).with_versioning(true, 0).with_versioned_index(true).with_enable_vlog(true)
        } else {
            opts(&self.dir)
        };
        let r = crate::util::build_tree(o);
        match (r, self.owner) {
            (Ok(t), None) => {
                match Self::scan(&t) {
                    Ok(got) if got == self.model => {}
                    Ok(got) => {
                        return fail("acknowledged-commits-missing-after-open", step, format!("in-process open succeeded but sees {} keys, {} were acknowledged by previous owners", got.len(), self.model.len()))
                    }
                    Err(m) => return fail("read-error", step, m),
                }
                self.ins.insert(i, t);
                self.owner = Some(Owner::In(i));
                self.stats.inc("opens_ok");
                if self.stats.has("refused") {
                    self.stats.inc("open_after_refusal");
                }
                Ok(())
            }
            (Ok(t), Some(o)) => {
                drop(t);
                fail("second-instance-opened", step, format!("in-process open #{i} succeeded while {o:?} holds the directory"))
            }
            (Err(e), None) => fail("open-refused-without-owner", step, format!("in-process open #{i} failed although nobody holds the directory (last release: {:?}): {e:?}", self.last_release)),
            (Err(_), Some(_)) => {
                // files only: an EMPTY sub-directory that the refused opener's options ask for (versioned_index/, vlog/) is
                // created before the lock is tried; that is not data
                let files = |v: &[(String, u64, u64)]| -> Vec<(String, u64, u64)> { v.iter().filter(|e| !e.0.ends_with('/')).cloned().collect() };
                let (before, after) = (files(&before), files(&tree_digest(&self.dir, &["LOCK"])));
                if before != after {
                    return fail("refused-open-touched-data", step, format!("a refused in-process open changed the directory: before {:?} after {:?}", diff(&before, &after), diff(&after, &before)));
                }
                self.stats.inc("refused");
                Ok(())
            }
        }
    }

    fn open_child(&mut self, i: u8, step: usize) -> R<()> {
        if self.children.contains_key(&i) {
            return Ok(());
        }
        let before = tree_digest(&self.dir, &["LOCK"]);
        let (cp, line) = ChildProc::spawn(&self.dir).map_err(|e| Failure { class: "harness-io".into(), step, msg: format!("spawn opener: {e}"), aux: json!({}) })?;
        let ok = line == "OK";
        match (ok, self.owner) {
            (true, None) => {
                self.children.insert(i, cp);
                self.owner = Some(Owner::Child(i));
                self.stats.inc("opens_ok");
                self.stats.inc("child_opens_ok");
                if self.stats.has("refused") {
                    self.stats.inc("open_after_refusal");
                }
                Ok(())
            }
            (true, Some(o)) => {
                cp.kill();
                fail("second-instance-opened", step, format!("child process #{i} opened the directory while {o:?} holds it"))
            }
            (false, None) => {
                cp.reap();
                fail("open-refused-without-owner", step, format!("child open #{i} failed although nobody holds the directory (last release: {:?}): {line}", self.last_release))
            }
            (false, Some(_)) => {
                cp.reap();
                let after = tree_digest(&self.dir, &["LOCK"]);
                if before != after {
                    return fail("refused-open-touched-data", step, format!("a refused cross-process open changed the directory: {:?} / {:?}", diff(&before, &after), diff(&after, &before)));
                }
                self.stats.inc("refused");
                self.stats.inc("refused_cross_process");
                Ok(())
            }
        }
    }
}

fn diff(a: &[(String, u64, u64)], b: &[(String, u64, u64)]) -> Vec<String> {
    a.iter().filter(|x| !b.contains(x)).map(|x| format!("{}({})", x.0, x.1)).take(6).collect()
}

async fn run_inner(case: &LockCase, dir: &Path, st: &mut St) -> R<()> {
    // checkpoints live next to the database directory, not inside it
    let cp_root = dir.parent().unwrap_or(dir).join("lock-checkpoints");
    surrealkv::verif::set_manual_background(true);
    // prelude: a first owner writes some data and goes away without flushing (WAL replay on every later open)
    if case.prelude > 0 {
        let t = crate::util::build_tree(opts(dir)).map_err(|e| Failure { class: "open-failed".into(), step: 0, msg: format!("{e:?}"), aux: json!({}) })?;
        for p in 0..case.prelude {
            let mut txn = t.begin().map_err(|e| Failure { class: "begin-error".into(), step: 0, msg: format!("{e:?}"), aux: json!({}) })?;
            let (k, v) = (format!("pre{p}"), format!("v{p}"));
            txn.set(k.as_bytes(), v.as_bytes()).map_err(|e| Failure { class: "write-error".into(), step: 0, msg: format!("{e:?}"), aux: json!({}) })?;
            txn.commit().await.map_err(|e| Failure { class: "commit-error".into(), step: 0, msg: format!("{e:?}"), aux: json!({}) })?;
            st.model.insert(k, v);
        }
        t.close().await.map_err(|e| Failure { class: "close-error".into(), step: 0, msg: format!("{e:?}"), aux: json!({}) })?;
        drop(t);
        st.wait_released().await;
    }
    for (si, op) in case.ops.iter().enumerate() {
        match op {
            LockOp::OpenIn(i) => st.open_in(*i % 3, si).await?,
            LockOp::OpenChild(i) => st.open_child(*i % 3, si)?,
            LockOp::HoldTxn => {
                if let Some(Owner::In(i)) = st.owner {
                    if st.held.len() < 3 {
                        if let Ok(txn) = st.ins.get(&i).unwrap().begin_with_mode(surrealkv::Mode::ReadOnly) {
                            st.held.push(txn);
                            st.stats.inc("transactions_held");
                        }
                    }
                }
            }
            LockOp::DropHeldTxn => {
                if !st.held.is_empty() {
                    let t = st.held.remove(0);
                    drop(t);
                    st.wait_released().await;
                    if st.owner.is_none() {
                        st.stats.inc("transaction_dropped_after_its_store");
                    }
                }
            }
            LockOp::FailingOpen => {
                if st.owner.is_some() {
                    continue;
                }
                // the newest non-empty WAL segment
                let wal_dir = dir.join("wal");
                let mut segs: Vec<PathBuf> = std::fs::read_dir(&wal_dir).map(|rd| rd.flatten().map(|e| e.path()).filter(|p| p.extension().map_or(false, |x| x == "wal")).collect()).unwrap_or_default();
                segs.sort();
                let Some(seg) = segs.last().cloned() else { continue };
                if std::fs::metadata(&seg).map(|m| m.len()).unwrap_or(0) == 0 {
                    continue;
                }
                {
                    use std::io::Write;
                    let Ok(mut f) = std::fs::OpenOptions::new().append(true).open(&seg) else { continue };
                    // a header with a wrong checksum and an impossible type, then some payload
                    let _ = f.write_all(&[0xABu8; 40]);
                }
                let o = opts(dir).with_wal_recovery_mode(surrealkv::WalRecoveryMode::AbsoluteConsistency);
                match crate::util::build_tree(o) {
                    Err(_) => {
                        st.stats.inc("failed_opens");
                        st.wait_released().await;
                        st.last_release = Some("an open that failed (damaged log, AbsoluteConsistency)");
                    }
                    Ok(t) => {
                        // the damage was not noticed (that is C16's business): an ordinary owner that goes away again
                        st.stats.inc("failing_open_succeeded");
                        let _ = t.close().await;
                        drop(t);
                        st.wait_released().await;
                        st.last_release = Some("close");
                    }
                }
            }
            LockOp::CloseIn(i) => {
                let i = *i % 3;
                if let Some(t) = st.ins.remove(&i) {
                    if let Err(e) = t.close().await {
                        return fail("close-error", si, format!("{e:?}"));
                    }
                    drop(t);
                    st.wait_released().await;
                    if st.owner == Some(Owner::In(i)) {
                        st.owner = None;
                    }
                    st.last_release = Some("close");
                    st.stats.inc("release_close");
                }
            }
            LockOp::DropIn(i) => {
                let i = *i % 3;
                if let Some(t) = st.ins.remove(&i) {
                    drop(t);
                    st.wait_released().await;
                    if st.owner == Some(Owner::In(i)) {
                        st.owner = None;
                    }
                    st.last_release = Some("drop");
                    st.stats.inc("release_drop");
                }
            }
            LockOp::CloseChild(i) => {
                let i = *i % 3;
                if let Some(mut c) = st.children.remove(&i) {
                    let r = c.cmd("close").map_err(|e| Failure { class: "harness-io".into(), step: si, msg: e.to_string(), aux: json!({}) })?;
                    c.reap();
                    if r != "CLOSED" {
                        return fail("close-error", si, format!("child close answered {r}"));
                    }
                    if st.owner == Some(Owner::Child(i)) {
                        st.owner = None;
                    }
                    st.last_release = Some("child-close");
                    st.stats.inc("release_child_close");
                }
            }
            LockOp::KillChild(i) => {
                let i = *i % 3;
                if let Some(c) = st.children.remove(&i) {
                    c.kill();
                    if st.owner == Some(Owner::Child(i)) {
                        st.owner = None;
                    }
                    st.last_release = Some("kill");
                    st.stats.inc("release_kill");
                }
            }
            LockOp::Commit => {
                let (k, v) = (format!("c{}", st.n_commit), format!("val{}", st.n_commit));
                st.n_commit += 1;
                match st.owner {
                    Some(Owner::In(i)) => {
                        let t = st.ins.get(&i).unwrap();
                        let mut txn = t.begin().map_err(|e| Failure { class: "begin-error".into(), step: si, msg: format!("{e:?}"), aux: json!({}) })?;
                        txn.set(k.as_bytes(), v.as_bytes()).map_err(|e| Failure { class: "write-error".into(), step: si, msg: format!("{e:?}"), aux: json!({}) })?;
                        txn.commit().await.map_err(|e| Failure { class: "commit-error".into(), step: si, msg: format!("{e:?}"), aux: json!({}) })?;
                        st.model.insert(k, v);
                        st.stats.inc("commits");
                    }
                    Some(Owner::Child(i)) => {
                        let c = st.children.get_mut(&i).unwrap();
                        let r = c.cmd(&format!("commit {k} {v}")).map_err(|e| Failure { class: "harness-io".into(), step: si, msg: e.to_string(), aux: json!({}) })?;
                        if r != "DONE" {
                            return fail("commit-error", si, format!("child commit answered {r}"));
                        }
                        st.model.insert(k, v);
                        st.stats.inc("commits");
                    }
                    None => {}
                }
            }
            LockOp::CheckpointRestore => {
                if let Some(Owner::In(i)) = st.owner {
                    let t = st.ins.get(&i).unwrap();
                    st.n_cp += 1;
                    let cp = cp_root.join(format!("cp{}", st.n_cp));
                    let _ = std::fs::remove_dir_all(&cp);
                    if let Err(e) = t.create_checkpoint(&cp) {
                        return fail("checkpoint-error", si, format!("create_checkpoint failed: {e:?}"));
                    }
                    if let Err(e) = t.restore_from_checkpoint(&cp) {
                        return fail("restore-error", si, format!("restore_from_checkpoint failed: {e:?}"));
                    }
                    st.stats.inc("owner_restored_a_checkpoint");
                }
            }
            LockOp::Race { n, children } => {
                let n = (*n % 3 + 2) as usize;
                let expect = if st.owner.is_none() { 1 } else { 0 };
                if *children {
                    let mut procs = Vec::new();
                    let dirc = dir.to_path_buf();
                    let hs: Vec<_> = (0..n)
                        .map(|_| {
                            let d = dirc.clone();
                            std::thread::spawn(move || ChildProc::spawn(&d))
                        })
                        .collect();
                    for h in hs {
                        if let Ok(Ok(p)) = h.join() {
                            procs.push(p);
                        }
                    }
                    let wins = procs.iter().filter(|p| p.1 == "OK").count();
                    for (p, line) in procs {
                        if line == "OK" {
                            let mut p = p;
                            let _ = p.cmd("close");
                            p.reap();
                        } else {
                            p.reap();
                        }
                    }
                    if wins != expect {
                        return fail("race-winners", si, format!("{n} processes raced to open (owner before: {:?}): {wins} succeeded, expected {expect}", st.owner));
                    }
                } else {
                    let barrier = Arc::new(std::sync::Barrier::new(n));
                    let hs: Vec<_> = (0..n)
                        .map(|_| {
                            let d = dir.to_path_buf();
                            let b = barrier.clone();
                            let h = tokio::runtime::Handle::current();
                            std::thread::spawn(move || {
                                let _g = h.enter();
                                b.wait();
                                crate::util::build_tree(opts(&d)).ok()
                            })
                        })
                        .collect();
                    let mut winners = Vec::new();
                    for h in hs {
                        if let Ok(Some(t)) = h.join() {
                            winners.push(t);
                        }
                    }
                    let wins = winners.len();
                    for t in winners {
                        let _ = t.close().await;
                        drop(t);
                    }
                    st.wait_released().await;
                    if wins != expect {
                        return fail("race-winners", si, format!("{n} threads raced to open (owner before: {:?}): {wins} succeeded, expected {expect}", st.owner));
                    }
                }
                st.stats.inc("races");
            }
        }
    }
    // epilogue: release everything, then the directory must open and hold every acknowledged commit
    for (_, c) in std::mem::take(&mut st.children) {
        c.kill();
    }
    for (_, t) in std::mem::take(&mut st.ins) {
        let _ = t.close().await;
        drop(t);
    }
    st.wait_released().await;
    st.owner = None;
    st.last_release = Some("epilogue");
    st.open_in(0, case.ops.len()).await?;
    if let Some(t) = st.ins.remove(&0) {
        let _ = t.close().await;
        drop(t);
        st.wait_released().await;
    }
    Ok(())
}

pub fn run_lock_case(case: &LockCase, dir: &Path) -> CaseResult {
    let db = dir.join("db");
    let _ = std::fs::create_dir_all(&db);
    let mut st = St { dir: db.clone(), owner: None, ins: BTreeMap::new(), children: BTreeMap::new(), model: BTreeMap::new(), n_commit: 0, n_cp: 0, stats: Stats::default(), last_release: None, held: Vec::new() };
    let rt = tokio::runtime::Builder::new_current_thread().enable_all().build().expect("runtime");
    let failure = rt.block_on(run_inner(case, &db, &mut st)).err();
    for (_, c) in std::mem::take(&mut st.children) {
        c.kill();
    }
    st.held.clear();
    st.ins.clear();
    drop(rt);
    let s = &st.stats;
    let kinds = ["release_close", "release_drop", "release_child_close", "release_kill"].iter().filter(|k| s.has(k)).count();
    let nontrivial = failure.is_none() && s.has("refused") && s.has("open_after_refusal") && kinds >= 2;
    CaseResult { stats: st.stats, failure, nontrivial }
}

pub fn c19() -> PropDef<LockCase> {
    PropDef {
        id: "C19",
        engine: "lock",
        level: "exploration",
        rule: "case = 0..3 prelude commits (left in the WAL so that every later open has recovery work) + up to 25 operations over 3 in-process openers and 3 child processes (helper binary `opener`): open, close, drop without close, kill -9, commits by the current owner, transactions of the in-process owner that are kept alive across close / drop of the store handle and dropped later, refused opens that come with other options than the owner's (versioning, version index, value log), an open that FAILS after it has taken the lock (garbage appended to the newest WAL segment, AbsoluteConsistency mode; only while nobody owns the directory), and races of 2..4 threads or processes opening at the same time. Oracle: single-owner model - an open succeeds iff nobody holds the directory, a race has exactly one winner (none while an owner is live); a refused open leaves the directory byte-identical except for the LOCK file; after close / drop / kill the next open succeeds and sees every acknowledged commit. Non-trivial: at least one refused open while an owner was live, a later successful open, and two different release mechanisms in the case. Distinct = hash of the serialised case.".into(),
        assumptions: vec![
            "the LOCK file's own content is ownership metadata, not data (a refused open truncates it before trying the lock); it is excluded from the byte-identity comparison, and so are empty sub-directories (a refused opener creates the ones its options ask for before it tries the lock)".into(),
            "after drop() the harness yields to the runtime so that the close task spawned by Tree::drop runs before the next open".into(),
        ],
        strategy: Arc::new(|| {
            let op = prop_oneof![
                5 => (0u8..3).prop_map(LockOp::OpenIn),
                3 => (0u8..3).prop_map(LockOp::CloseIn),
                3 => (0u8..3).prop_map(LockOp::DropIn),
                4 => (0u8..3).prop_map(LockOp::OpenChild),
                2 => (0u8..3).prop_map(LockOp::CloseChild),
                2 => (0u8..3).prop_map(LockOp::KillChild),
                4 => Just(LockOp::Commit),
                2 => Just(LockOp::CheckpointRestore),
                2 => Just(LockOp::FailingOpen),
                3 => Just(LockOp::HoldTxn),
                2 => Just(LockOp::DropHeldTxn),
                1 => (0u8..3, any::<bool>()).prop_map(|(n, children)| LockOp::Race { n, children }),
            ];
            (0u8..4, vec(op, 6..26)).prop_map(|(prelude, ops)| LockCase { prelude, ops }).boxed()
        }),
        run: Arc::new(|c: &LockCase, d: &Path| run_lock_case(c, d)),
        render: Arc::new(|c: &LockCase| json!({"prelude": c.prelude, "ops": c.ops.iter().map(|o| format!("{o:?}")).collect::<Vec<_>>()})),
        minimize: None,
        shrink_iters: 300,
    }
}
