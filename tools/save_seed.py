#!/usr/bin/env python3
"""save_seed.py <PROP> <n> <detected_by: comma list or 'none'> <needs...>  - copies an independently produced, confirmed
seeded change from /tmp/wt/<PROP>-out into /verif/seeded/<PROP>-<n>/ with a meta.json."""
import json,os,re,shutil,sys
prop,n,det=sys.argv[1],sys.argv[2],sys.argv[3]; needs=' '.join(sys.argv[4:])
round2 = prop[-1] in 'bcdefgh'
src=f'/tmp/wt/{prop}-out'; dst=f'/verif/seeded/{prop}-{n}'
prop_id = prop[:-1] if round2 else prop
os.makedirs(dst,exist_ok=True)
pn = n if not n.endswith('o') else '3_optional'
shutil.copy(f'{src}/patch{pn}.diff',f'{dst}/patch.diff')
if os.path.exists(f'{src}/patch{pn}.rebased.diff'): shutil.copy(f'{src}/patch{pn}.rebased.diff',f'{dst}/patch.rebased.diff')
shutil.copy(f'{src}/demo{pn}.diff',f'{dst}/demo.diff')
conf=''
log=f'/tmp/confirm-{prop}.log'
if os.path.exists(log):
    for l in open(log):
        if l.startswith(f'CONFIRM {prop}-out/{n}:'): conf=l.strip()
notes=open(f'{src}/notes.md').read() if os.path.exists(f'{src}/notes.md') else ''
meta={"property":prop_id,"seed":f"{prop}-{n}","origin":"written by a fresh sub-agent that saw only the property text and its own scratch worktree of surrealkv (nothing from /verif)",
 "needs_to_manifest":needs,
 "confirmed_by_me":conf or "see DESIGN.md section 10",
 "confirmation_procedure":"tools/confirm_seed.sh in the sub-agent's scratch worktree: demo passes on the original code, fails with the change; the whole existing suite (cargo test --workspace --no-fail-fast --offline) passes with the change; cargo check with --cfg surrealkv_verif passes",
 "detected_by":[] if det=='none' else det.split(','),
 "how_run":"tools/seedtest.sh <patch> <ID> quick  (git -C /repo apply; ./run.sh <ID> quick; git -C /repo checkout -- .)",
 "agent_notes_excerpt":notes[:3000]}
json.dump(meta,open(f'{dst}/meta.json','w'),indent=1)
print(dst)
