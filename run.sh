#!/bin/bash
# ./run.sh <ID> <quick|thorough> | ./run.sh <ID> --replay <file>
# Rebuilds the harness (and surrealkv with the verif hooks, from /repo's working tree) and runs one check.
# exit 0 = property held (KNOWN-FINDING lines possible); 1 = VIOLATION line printed; 2 = infrastructure problem.
cd "$(dirname "$0")" || exit 2
export VERIF_ROOT="$(pwd)"
export CARGO_NET_OFFLINE=true
ID="$1"; shift
if [ -z "$ID" ]; then echo "usage: $0 <ID> <quick|thorough> | $0 <ID> --replay <file>"; exit 2; fi
LOG="$(mktemp /tmp/skv-verif-build.XXXXXX)"
if ! (cd harness && cargo build --release --offline >"$LOG" 2>&1); then
  echo "BUILD-FAILED (not a violation); last lines:"; tail -n 40 "$LOG"; rm -f "$LOG"; exit 2
fi
rm -f "$LOG"
if [ -f shim/iotrace.c ] && { [ ! -f build/iotrace.so ] || [ shim/iotrace.c -nt build/iotrace.so ]; }; then
  mkdir -p build && cc -O2 -shared -fPIC -o build/iotrace.so shim/iotrace.c -ldl || { echo "SHIM-BUILD-FAILED"; exit 2; }
fi
exec ./target/release/check "$ID" "$@"
