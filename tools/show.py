#!/usr/bin/env python3
import json,sys,glob
for pat in sys.argv[1:]:
    for f in sorted(glob.glob(pat)):
        d=json.load(open(f))
        print('==',f); print('  class:',d['class'],' at_step:',d['at_step']); print('  msg:',d['message'][:400])
        c=d['case']
        if 'cfg' in c:
            dflt={'block':65536}
            print('  cfg:',json.dumps(c['cfg']))
            print('  pool:',[bytes(k).decode('latin1') for k in c['pool']])
            for i,s in enumerate(c['steps']): print('   %2d'%i,json.dumps(s))
        else:
            print(json.dumps(c)[:3000])
