//! Scripted scenarios (debug aid): one fixed interleaving driven through the verification hooks.
//!   scenario horizon <dir>   - a committer parked between its memtable apply and its publish while the memtable is
//!                              flushed and compacted; a reader that begins before the publish must still see the old value
use std::sync::{Arc, Condvar, Mutex};
use surrealkv::verif::{VerifActor, VerifEvent};

struct ParkAt {
    site: &'static str,
    state: Mutex<(bool, bool)>, // (parked, released)
    cv: Condvar,
}
impl VerifActor for ParkAt {
    fn yield_point(&self, site: &'static str) {
        if site == self.site {
            let mut g = self.state.lock().unwrap();
            g.0 = true;
            self.cv.notify_all();
            while !g.1 {
                g = self.cv.wait(g).unwrap();
            }
        }
    }
    fn event(&self, _ev: VerifEvent) {}
}

fn main() {
    let a: Vec<String> = std::env::args().collect();
    let dir = std::path::PathBuf::from(a.get(2).expect("dir"));
    let _ = std::fs::remove_dir_all(&dir);
    surrealkv::verif::set_manual_background(true);
    let rt = tokio::runtime::Builder::new_multi_thread().worker_threads(2).enable_all().build().unwrap();
    let _g = rt.enter();
    let mut o = surrealkv::Options::new().with_path(dir.join("db"));
    o.level_count = 2;
    o.level0_max_files = 1;
    let tree = Arc::new(surrealkv::TreeBuilder::with_options(o).build().expect("open"));
    // k = old (published)
    {
        let mut t = tree.begin().unwrap();
        t.set(b"k", b"old").unwrap();
        rt.block_on(t.commit()).unwrap();
    }
    let park = Arc::new(ParkAt { site: "commit:applied", state: Mutex::new((false, false)), cv: Condvar::new() });
    let (t2, p2, h) = (tree.clone(), park.clone(), rt.handle().clone());
    let th = std::thread::spawn(move || {
        let _g = h.enter();
        surrealkv::verif::set_actor(Some(p2));
        // write-only: no snapshot of its own that would protect the version it overwrites
        let mut t = t2.begin_with_mode(surrealkv::Mode::WriteOnly).unwrap();
        t.set(b"k", b"new").unwrap();
        h.block_on(t.commit()).unwrap();
        surrealkv::verif::set_actor(None);
    });
    {
        let mut g = park.state.lock().unwrap();
        while !g.0 {
            g = park.cv.wait(g).unwrap();
        }
    }
    // the committer has applied k=new but not published it
    tree.verif_rotate().unwrap();
    tree.verif_flush_all().unwrap();
    let compacted = tree.verif_compact_once().unwrap();
    let r = tree.begin_with_mode(surrealkv::Mode::ReadOnly).unwrap();
    let got = r.get(b"k").unwrap();
    println!("compacted={compacted} visible={} reader sees {:?}", tree.verif_visible_seq(), got.as_ref().map(|v| String::from_utf8_lossy(v).to_string()));
    {
        let mut g = park.state.lock().unwrap();
        g.1 = true;
        park.cv.notify_all();
    }
    th.join().unwrap();
    drop(r);
    rt.block_on(tree.close()).unwrap();
    if got.as_deref() != Some(&b"old"[..]) {
        println!("SCENARIO-FAILED");
        std::process::exit(1);
    }
}
